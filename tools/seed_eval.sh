#!/bin/sh
# usage: tools/seed_eval.sh <prop id> <patch.diff> <demo.py> [check ids...]
# Confirms a seeded change in a scratch worktree of /repo (tests unchanged, demo fails with it and passes without it) and runs the
# given checks (default: the property's own) against the changed tree. Nothing is applied to /repo itself.
set -u
ID=$1; PATCH=$2; DEMO=$3; shift 3
CHECKS=${*:-$ID}
W=$(mktemp -d /tmp/sv/wt.XXXXXX); rmdir $W
git -C /repo worktree add -q --detach $W HEAD || exit 3
cleanup() { git -C /repo worktree remove --force $W >/dev/null 2>&1; rm -rf $W $W.ev; }
trap cleanup EXIT
cd $W
if ! git apply $PATCH 2>$W.err; then echo "RESULT $ID $(basename $PATCH): patch does not apply: $(head -c 200 $W.err)"; rm -f $W.err; exit 0; fi
rm -f $W.err
T=$(PYTHONPATH=$W /venv/bin/python -m pytest -q -p no:cacheprovider --timeout=900 --continue-on-collection-errors 2>&1 | tail -1)
PYTHONPATH=$W /venv/bin/python $DEMO >/dev/null 2>&1; D1=$?
OUT=""
for c in $CHECKS; do
  R=$(cd /verif && VERIF_REPO=$W VERIF_NPROC=${VERIF_NPROC:-8} ./check $c --tier quick 2>&1 | grep -c "^VIOLATION"); 
  X=$(cd /verif && ls /verif/replays 2>/dev/null | wc -l)
  OUT="$OUT $c:violations=$R"
done
git checkout -q -- . ; PYTHONPATH=$W /venv/bin/python $DEMO >/dev/null 2>&1; D0=$?
echo "RESULT $ID $(basename $PATCH): tests[$T] demo_with=$D1 demo_without=$D0 checks:$OUT"
