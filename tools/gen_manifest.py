#!/usr/bin/env python3
"""Regenerates /verif/MANIFEST.json from the table below (run after adding or changing a check)."""
import json
import os

HERE = os.path.dirname(os.path.dirname(os.path.abspath(__file__)))

TECH = ('bounded symbolic execution of the re-imported real source (csep-on-symnp engine) + z3 SMT queries, '
        'counterexamples replayed on the unmodified package')

CHECKS = {
    'C02': dict(
        text='Bounded symbolic model checking: the real bin1d_vec/_get_tolerance/discretize bytecode is executed on a '
             'symbolic value (every finite float64 / float32 / int64) against each concrete edge grid of the family; '
             'z3 (QF_BVFP, bit-exact IEEE-754) decides the negated half-open placement, band-limited monotonicity and '
             'discretize clauses per path. unsat = holds for all 2^64 values on that grid.',
        note='Trusted: z3 FP decision procedure; the numpy model (conformance-checked against the real numpy; every '
             'reachability witness is replayed bitwise on the real code). Grids outside the family are outside the claim.',
        ref='DESIGN.md 4/C02'),
    'C14': dict(
        text='Bounded symbolic model checking: the real write_ascii / load_catalog (csep_ascii), to_dict / from_dict, write_json / '
             'load_json and to_dataframe / from_dataframe run on catalogs of N = 0..2 (3) events with symbolic fields (origin time any '
             'integer millisecond of 1900..2200, real coordinates / depth / magnitude, symbolic integer catalog id) through field-level '
             'stubs of csv / json / pandas; z3 decides same count, order and six fields per event, catalog id, and name / region for '
             'dict and JSON. Reduced scope: text-level survival (quoting, printed digits) is inside the stubs; a concrete twin with '
             'the real libraries covers awkward ids, pre-1970 times, extreme coordinates and 17-digit doubles.',
        note='Trusted: z3; csv / json / pandas field-level stubs (identity channel on well-formed fields); datetime model; time '
             'arithmetic exact over the reals here (its float rounding is decided in C15).',
        ref='DESIGN.md 4/C14'),
    'C15': dict(
        text='Bounded symbolic model checking over every integer millisecond / microsecond instant of 1900..2200: the real '
             'time_utils functions run on symbolic instants through a step-by-step model of CPython datetime. The '
             'datetime->epoch leg is decided exactly (Int; bit-exact QF_BVFP when the code uses floats), epoch->datetime '
             'and the decimal-year claims under a sound per-binade rounding envelope over LIRA (unsat = proof for IEEE '
             'doubles; sat = candidate, counted only if it replays on the real code).',
        note='Trusted: z3; the datetime model (conformance-tested against the real datetime on boundary and seeded '
             'instants at every run); the envelope abstraction (sound over-approximation of round-to-nearest in the '
             'stated binades). Time strings are placeholders with real syntax: byte-level formatting is outside.',
        ref='DESIGN.md 4/C15'),
    'C01': dict(
        text='Bounded symbolic model checking with an assume-guarantee split: (lemma) the real bin1d_vec is decided bit-exactly '
             '(QF_BVFP) against the half-open contract on each lattice\'s own lon/lat edge arrays for every finite float64; '
             '(2-D) the real get_index_of / get_masked / get_cartesian / filter_spatial / spatial_counts run on symbolic points '
             'with bin1d_vec replaced by exactly that contract, and z3 decides the partition clauses per cell.',
        note='Trusted: z3; the numpy model; the substitution of the proven 1-D contract for bin1d_vec inside the region '
             '(sound because the lemma is decided on the same arrays in the same run). Lattices outside the family are outside.',
        ref='DESIGN.md 4/C01'),
    'C03': dict(
        text='Bounded symbolic model checking over N<=2 (3) symbolic events: the real gridding functions of CSEPCatalog run on a '
             'structured-array model with symbolic coordinates and magnitudes (reals; bin1d_vec arithmetic is linear), on an '
             'abstract Cartesian region (C01 contract as an uninterpreted cell function) and on the real zoom-1 quadtree grid.',
        note='Trusted: z3; numpy model incl. add.at / fancy-index semantics (negative wrap, repeated indices). Float rounding of '
             'magnitudes is C02\'s subject (band excluded).',
        ref='DESIGN.md 4/C03'),
    'C04': dict(
        text='Bounded symbolic model checking: the real filter / filter_spatial run on catalogs of 2 (3) symbolic events with '
             'symbolic thresholds and symbolic datetime instants; the oracle is the exact conjunction of the statements; orders, '
             'sequential application, idempotence, in_place=False and the history "filtered copy, then the same statements in place" '
             'are decided in the same exploration; the threshold of a datetime statement is also decided with the float steps of the code '
             'modelled (rounding envelope over every integer millisecond of 1900..2200, FP64 for a witness).',
        note='Trusted: z3; structured-array and datetime models; the literal-token contract float(repr(x)) == x.',
        ref='DESIGN.md 4/C04'),
    'C05': dict(
        text='Bounded symbolic model checking in extended-real arithmetic with uninterpreted log/lgamma: the real public L/CL/S/M '
             'tests run on symbolic rates (zeros allowed) and symbolic counts with symbolic random draws; the observed statistic '
             'and every simulated entry are compared with the sum of log Poisson pmf as real expressions (-inf iff zero-rate hit).',
        note='Trusted: z3 (NRA); the numpy model; the real-arithmetic abstraction (rounding of sums is outside the claim).',
        ref='DESIGN.md 4/C05'),
    'C06': dict(
        text='Bounded symbolic model checking, two encodings: bit-exact FP64 for the sampling weights (invariant: non-decreasing, '
             'flat on zero-rate bins, last weight >= 1; n up to 9 with numpy pairwise-sum semantics) and for the monolithic '
             'n=3 placement; reals/ints for the placement step from arbitrary invariant-satisfying weights, conserved counts, '
             'the quantile definition, numpy.ma data semantics of the binary/Brier weights and seed handling for seeds 0..2.',
        note='Trusted: z3; numpy / numpy.ma model (pairwise sum conformance-checked bitwise); IEEE lemma: division by a positive '
             'divisor is monotone (stated, not re-proved).',
        ref='DESIGN.md 4/C06'),
    'C07': dict(
        text='Bounded symbolic model checking: floor(n -/+ 1e-6) decided bit-exactly for every integer n in [0, 1e10] through the '
             'real private and public number tests; tail-probability identities over uninterpreted CDFs with contract; NBD '
             'parameters as rational identities; catalog N-test against the counting definition for J <= 4 symbolic sizes.',
        note='Trusted: z3; scipy CDF contract (values never evaluated).',
        ref='DESIGN.md 4/C07'),
    'C08': dict(
        text='Bounded symbolic model checking in real arithmetic with uninterpreted log/sqrt/t-quantile/normal-sf: T-test formulas, '
             'antisymmetry and zero self-gain for N=2,3 symbolic event rates; W-test against an independent signed-rank '
             'definition with tie correction over all tie/sign patterns; definedness of the three public entry points with the '
             'API of the installed numpy/scipy proxied.',
        note='Trusted: z3 (NRA+UF); abstract region for the public entry points (lookup is C11).',
        ref='DESIGN.md 4/C08'),
    'C09': dict(
        text='Bounded symbolic model checking over unconstrained real / integer samples of size n <= 7 (10): every tie pattern and '
             'query position at once; the real ecdf functions (sort network, bisection, indexing) against the counting definition.',
        note='Trusted: z3 (LRA/LIA); numpy sort/searchsorted model.',
        ref='DESIGN.md 4/C09'),
    'C10': dict(
        text='Bounded symbolic model checking in extended reals with uninterpreted log/log10/lgamma: the real pseudo-likelihood, '
             'spatial, magnitude, resampled-magnitude and MLL tests run on a real CatalogForecast of J=2 (3) synthetic-catalog stubs '
             'with symbolic gridded counts against symbolic observed counts; observed statistic, every test-distribution entry '
             '(skipped catalogs included), status (normal / undersampled / not-valid / no result) and quantiles are compared with '
             'the documentation formulas. Magnitude tests by assume-guarantee: scoring kernels (cumulative_square_diff, MLL_score) '
             'are decided against their definitions for all inputs in lemma jobs and replaced by recording opaque functions in the '
             'test-level runs; cube-and-conquer over the event totals keeps the arithmetic linear. Three-cell jobs cover an under-sampled '
             'cell next to a sampled cell without observed events; the N-test is run twice around a change of the catalogs.',
        note='Trusted: z3 (NRA+UF); catalog stubs (gridding is C03); numpy.random.choice as arbitrary admissible draws; functional '
             'consistency (Ackermann) lemmas for eliminated divisions. The number test is decided in C07.',
        ref='DESIGN.md 4/C10'),
    'C11': dict(
        text='Bounded symbolic model checking: the real GriddedForecast.load_ascii / from_custom / quadtree loaders run on file '
             'layouts (lattice x magnitude bins x flags x row order x swap_latlon) delivered by the loadtxt stub, the rate column '
             'being one opaque real symbol per file row; get_rates / target_event_rates on a symbolic (lon, lat, magnitude) point '
             'must return the symbol of the row whose half-open box contains it; scale sequences and the sum identities are '
             'decided over symbolic factors.',
        note='Trusted: z3; numpy model; the loadtxt/genfromtxt stub (the float matrix the file denotes; text parsing outside).',
        ref='DESIGN.md 4/C11'),
    'C12': dict(
        text='Bounded symbolic model checking of the real load_ascii_catalogs generator (nested helpers included) over files of '
             'L <= 4 (5) rows with symbolic catalog id and symbolic placeholder flag per row, with and without header: decoded '
             'catalogs equal the encoded ones (ids 0..n-1 in order, each with exactly its rows in file order, six fields); '
             'decreasing ids are rejected.',
        note='Trusted: z3; csv.reader stub (rows of fields); time strings as placeholders with real syntax and symbolic instant.',
        ref='DESIGN.md 4/C12'),
    'C13': dict(
        text='Bounded symbolic model checking over configurations (in-memory / loader, store, apply_filters, filter_spatial) and '
             'operation histories of length <= 3 (4) on the real CatalogForecast with counting catalog stubs: every pass yields the '
             'same catalogs with filters applied once, n_cat / get_event_counts equal one pass, get_expected_rates returns the '
             'per-cell mean identically on every request.',
        note='Trusted: z3; catalog stubs whose filter operations are idempotent (C04).',
        ref='DESIGN.md 4/C13'),
    'C17': dict(
        text='Bounded symbolic model checking in linear real arithmetic: single-resolution quadtree grids of zoom 1..4 (6) tile '
             'the band exactly once for every point and get_index_of returns the containing cell; refinement from 2 (3) symbolic '
             'events obeys the threshold / depth rule and yields prefix-free complete leaves; cell areas by one inductive step over '
             'arbitrary tile bounds (uninterpreted cos).',
        note='Trusted: z3; real mercantile for concrete tile bounds; lazy numpy.where model.',
        ref='DESIGN.md 4/C17'),
    'C18': dict(
        text='Bounded symbolic model checking: (results) the real to_dict / write_json / load_evaluation_result / from_dict run on '
             'result objects of each of the 7 classes whose fields are symbolic values with a Python-type tag (extended reals with '
             'free NaN / inf flags, integers, None, tuples / lists / ndarrays, strings); z3 decides field-wise equality after the '
             'round trip for every type signature produced by the real evaluation functions plus all single-field variations; '
             '(regions) original and from_dict(to_dict()) regions are compared bit-exactly (QF_BVFP) for every finite (lon, lat).',
        note='Trusted: z3; the JSON type-rule stub (conformance-tested against the real json module in the check); the type '
             'signatures are discovered by running the real evaluation functions on a small input family. Byte-level JSON is '
             'outside; the W-test result (test_distribution is the string "normal") is outside the numeric claim.',
        ref='DESIGN.md 4/C18'),
    'C19': dict(
        text='Bounded symbolic model checking of the real zmap_ascii, jma_csv, ingv_horus and csep_ascii readers through '
             'csep.load_catalog(type=...), behind tokeniser stubs: per record the civil time fields (valid dates of 1900..2199, '
             'seconds with millisecond fraction, seconds written as 60, HORUS second / minute / hour roll-over, JMA UTC offset) and the '
             'numeric fields are symbolic; z3 decides one event per record, in file order, fields in the right slots and origin time '
             'equal to the encoded UTC instant at the format resolution. Reduced scope: NDK is outside (string-level slicing / regex); '
             'tokenisation is a contract; every reachability witness goes through a real file and the real reader.',
        note='Trusted: z3; csv.reader / numpy.loadtxt / numpy.genfromtxt stubs (the genfromtxt stub models the 0-d result for a '
             'single data row); datetime model; exact-real time arithmetic (C15 decides the float steps). HORUS resolution is whole '
             'seconds, as the repository\'s own test pins.',
        ref='DESIGN.md 4/C19'),
    'C20': dict(
        text='Bounded relational symbolic model checking: the same real code is executed twice in one exploration, on an input and '
             'on a re-ordered copy, and z3 decides that the outcomes cannot differ: gridding functions and target_event_rates on '
             'N=2 (3) symbolic events vs a symbolic permutation of them; public T / W / binary-T tests (N=3, permutation cubes); '
             'all simulation-based and number tests with the same seed (draws are a function of seed and draw index) - identical '
             'outputs; catalog-based tests on a CatalogForecast vs the forecast with its synthetic catalogs permuted (statistic, '
             'quantile, expected rates identical, distribution equal as a multiset); a lattice built row-major vs shuffled with '
             'consistently permuted symbolic rates (lookups, gridded counts, N/L/S observed statistics).',
        note='Trusted: z3; abstract regions / event-list observation stubs for the event-order jobs; bin1d_vec replaced by its '
             'exact half-open contract (decided in C01/C02) in the cell-order job; equality over the reals ("to rounding").',
        ref='DESIGN.md 4/C20'),
    'C16': dict(
        text='Bounded symbolic model checking in extended reals with uninterpreted exp/log and the Poisson-cdf contract: binary '
             'log-likelihood and Brier score against their definitions for symbolic rates (zeros allowed) and counts, activity-only '
             'dependence, and the observed / simulated entries of the three public tests; numpy.ma data semantics modelled.',
        note='Trusted: z3; numpy.ma model (data semantics conformance-tested).',
        ref='DESIGN.md 4/C16'),
}

PENDING_REASON = 'check not built yet in this session (design in DESIGN.md section 4; will be claimed when its harness lands)'

ALL = ['C%02d' % i for i in range(1, 21)]


def main():
    checks = []
    for pid in ALL:
        if pid not in CHECKS:
            continue
        c = CHECKS[pid]
        checks.append({
            'property_id': pid,
            'quick_cmd': './check %s --tier quick' % pid,
            'thorough_cmd': './check %s --tier thorough' % pid,
            'evidence_file': 'evidence/%s.json' % pid,
            'replay_cmd_template': './check %s --replay {path}' % pid,
            'engine': 'symx',
            'level_claimed': {'category': 'model_checking', 'text': c['text'], 'design_ref': c['ref']},
            'level_note': c['note'],
            'technique': c.get('technique', TECH),
        })
    na = [{'property_id': p, 'reason': NA.get(p, PENDING_REASON)} for p in ALL if p not in CHECKS]
    man = {
        'version': 1,
        'setup_cmd': './setup.sh',
        'hooks': {
            'guard': 'SCECCODE_PYCSEP_VERIF',
            'enable': 'no hooks: the engine re-imports the source under /repo/csep from outside; nothing in the '
                      'repository is instrumented',
            'baseline_off_cmd': 'cd /repo && /venv/bin/python -m pytest -ra -q -p no:cacheprovider --timeout=900 '
                                '--continue-on-collection-errors',
            'source_commits': [],
            'add_only': True,
        },
        'engines': [{
            'name': 'symx', 'path': 'symx/',
            'serves_properties': [c['property_id'] for c in checks],
            'kind_free_text': 'symbolic execution of the real Python source with model numpy/scipy/datetime over z3 '
                              '(FP64 / extended-real+UF / Int), re-execution path explorer',
        }],
        'checks': checks,
        'not_applicable': na,
        'notes': 'Solver-based checking of the real code. Exit codes: 0 held / only listed known findings, '
                 '1 reproduced unlisted violation, 2 harness error. Known findings: known-findings.txt.',
    }
    with open(os.path.join(HERE, 'MANIFEST.json'), 'w') as f:
        json.dump(man, f, indent=1)
    print('MANIFEST.json: %d checks, %d not_applicable' % (len(checks), len(na)))


NA = {}

if __name__ == '__main__':
    main()
