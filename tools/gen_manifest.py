#!/usr/bin/env python3
"""Regenerates /verif/MANIFEST.json from the table below (run after adding or changing a check)."""
import json
import os

HERE = os.path.dirname(os.path.dirname(os.path.abspath(__file__)))

TECH = ('bounded symbolic execution of the re-imported real source (csep-on-symnp engine) + z3 SMT queries, '
        'counterexamples replayed on the unmodified package')

CHECKS = {
    'C02': dict(
        text='Bounded symbolic model checking: the real bin1d_vec/_get_tolerance/discretize bytecode is executed on a '
             'symbolic value (every finite float64 / float32 / int64) against each concrete edge grid of the family; '
             'z3 (QF_BVFP, bit-exact IEEE-754) decides the negated half-open placement, band-limited monotonicity and '
             'discretize clauses per path. unsat = holds for all 2^64 values on that grid.',
        note='Trusted: z3 FP decision procedure; the numpy model (conformance-checked against the real numpy; every '
             'reachability witness is replayed bitwise on the real code). Grids outside the family are outside the claim.',
        ref='DESIGN.md 4/C02'),
    'C15': dict(
        text='Bounded symbolic model checking over every integer millisecond / microsecond instant of 1900..2200: the real '
             'time_utils functions run on symbolic instants through a step-by-step model of CPython datetime. The '
             'datetime->epoch leg is decided exactly (Int; bit-exact QF_BVFP when the code uses floats), epoch->datetime '
             'and the decimal-year claims under a sound per-binade rounding envelope over LIRA (unsat = proof for IEEE '
             'doubles; sat = candidate, counted only if it replays on the real code).',
        note='Trusted: z3; the datetime model (conformance-tested against the real datetime on boundary and seeded '
             'instants at every run); the envelope abstraction (sound over-approximation of round-to-nearest in the '
             'stated binades). Time strings are placeholders with real syntax: byte-level formatting is outside.',
        ref='DESIGN.md 4/C15'),
}

PENDING_REASON = 'check not built yet in this session (design in DESIGN.md section 4; will be claimed when its harness lands)'

ALL = ['C%02d' % i for i in range(1, 21)]


def main():
    checks = []
    for pid in ALL:
        if pid not in CHECKS:
            continue
        c = CHECKS[pid]
        checks.append({
            'property_id': pid,
            'quick_cmd': './check %s --tier quick' % pid,
            'thorough_cmd': './check %s --tier thorough' % pid,
            'evidence_file': 'evidence/%s.json' % pid,
            'replay_cmd_template': './check %s --replay {path}' % pid,
            'engine': 'symx',
            'level_claimed': {'category': 'model_checking', 'text': c['text'], 'design_ref': c['ref']},
            'level_note': c['note'],
            'technique': c.get('technique', TECH),
        })
    na = [{'property_id': p, 'reason': NA.get(p, PENDING_REASON)} for p in ALL if p not in CHECKS]
    man = {
        'version': 1,
        'setup_cmd': './setup.sh',
        'hooks': {
            'guard': 'SCECCODE_PYCSEP_VERIF',
            'enable': 'no hooks: the engine re-imports the source under /repo/csep from outside; nothing in the '
                      'repository is instrumented',
            'baseline_off_cmd': 'cd /repo && /venv/bin/python -m pytest -ra -q -p no:cacheprovider --timeout=900 '
                                '--continue-on-collection-errors',
            'source_commits': [],
            'add_only': True,
        },
        'engines': [{
            'name': 'symx', 'path': 'symx/',
            'serves_properties': [c['property_id'] for c in checks],
            'kind_free_text': 'symbolic execution of the real Python source with model numpy/scipy/datetime over z3 '
                              '(FP64 / extended-real+UF / Int), re-execution path explorer',
        }],
        'checks': checks,
        'not_applicable': na,
        'notes': 'Solver-based checking of the real code. Exit codes: 0 held / only listed known findings, '
                 '1 reproduced unlisted violation, 2 harness error. Known findings: known-findings.txt.',
    }
    with open(os.path.join(HERE, 'MANIFEST.json'), 'w') as f:
        json.dump(man, f, indent=1)
    print('MANIFEST.json: %d checks, %d not_applicable' % (len(checks), len(na)))


NA = {}

if __name__ == '__main__':
    main()
