#!/bin/sh
# usage: tools/refactor_eval.sh <patch.diff> <check id>...   -- a behaviour-preserving refactoring must leave every check at exit 0
PATCH=$1; shift
W=$(mktemp -d /tmp/sv/rf.XXXXXX); rmdir $W; git -C /repo worktree add -q --detach $W HEAD || exit 3
(cd $W && git apply $PATCH) || { echo "REFACTOR $(basename $PATCH): does not apply"; git -C /repo worktree remove --force $W; exit 0; }
for c in "$@"; do
  (cd /verif && VERIF_REPO=$W VERIF_NPROC=${VERIF_NPROC:-12} ./check $c --tier quick > $W.log 2>&1); X=$?
  echo "REFACTOR $PATCH $c exit=$X $(grep 'tier=quick' $W.log | sed 's/.*inconclusive/inconclusive/')"
  if [ $X -ne 0 ]; then grep -m2 -A16 "HARNESS-ERROR\|^VIOLATION" $W.log | grep -v "^  File\|^    " | head -8 | cut -c1-260; fi
done
git -C /repo worktree remove --force $W; rm -f $W.log
