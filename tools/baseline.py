#!/usr/bin/env python3
"""Runs the pinned test command and checks that every stable_pass test of BASELINE.json still passes."""
import json, subprocess, sys, tempfile, os
import xml.etree.ElementTree as ET
base = json.load(open('/root/.vp/BASELINE.json'))
with tempfile.TemporaryDirectory() as d:
    out = os.path.join(d, 'j.xml')
    cmd = base['cmd'].replace('<file>', out)
    subprocess.run(cmd, shell=True, stdout=subprocess.DEVNULL, stderr=subprocess.DEVNULL)
    passed = set()
    for tc in ET.parse(out).getroot().iter('testcase'):
        ok = not any(c.tag in ('failure', 'error', 'skipped') for c in tc)
        name = '%s::%s' % (tc.get('classname'), tc.get('name'))
        if ok:
            passed.add(name)
missing = [t for t in base['stable_pass'] if t not in passed]
print('stable_pass %d, passing now %d, missing %d' % (len(base['stable_pass']), len(passed & set(base['stable_pass'])), len(missing)))
for m in missing:
    print('  MISSING', m)
sys.exit(1 if missing else 0)
