#!/bin/sh
# builds the overlay interpreter offline: /venv's packages + /repo + z3/cvc5/crosshair from the wheelhouse
set -e
cd "$(dirname "$0")"
if [ ! -x .venv/bin/python ]; then
    /venv/bin/python -m venv .venv
    SP=$(.venv/bin/python -c "import sysconfig; print(sysconfig.get_paths()['purelib'])")
    printf "import site; site.addsitedir('/venv/lib/python3.12/site-packages')\n" > "$SP/verif_overlay.pth"
    PIP_NO_INDEX=1 .venv/bin/pip install -q --no-index --find-links /opt/veriftools/wheels z3-solver cvc5 jsonschema crosshair-tool
fi
PYTHONDONTWRITEBYTECODE=1 PYTHONPATH="$(pwd)" .venv/bin/python -W ignore -c "import z3, numpy, scipy; print('overlay ok', z3.get_version_string(), numpy.__version__, scipy.__version__)"
