#!/bin/sh
# usage: tools_mut.sh <id> <tier> 'sed-expr' file   -- run a check against a scratch copy of the repo with one edit
set -e
D=$(mktemp -d /tmp/mut.XXXXXX)
mkdir -p $D/repo && cp -r /repo/csep $D/repo/csep
sed -i "$3" $D/repo/$4
(cd /repo && diff -u $4 $D/repo/$4 | head -20) || true
cd /verif && VERIF_REPO=$D/repo ./check $1 --tier $2; echo "exit=$?"
rm -rf $D
