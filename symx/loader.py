"""Symbolic re-import of the repository's own source.

Every run reads the *current* files under <repo>/csep, compiles them unchanged and executes them in
fresh module objects whose __builtins__ is a private dictionary: `import numpy` resolves to the model
library, `csep.*` resolves recursively to the re-imported twins, plotting / web packages resolve to
inert stubs. Nothing in the repository is edited and the real `csep` package is never touched.
"""
import builtins
import os
import sys
import types

from . import core
from .core import SInt, SBV, SFP, XR, SBool, is_sym, NotModelled

REPO = os.environ.get('VERIF_REPO', '/repo')


class Stub(types.ModuleType):
    """inert stand-in for plotting / network packages"""

    def __getattr__(self, k):
        if k.startswith('__'):
            raise AttributeError(k)
        if k[:1].isupper():
            v = type(k, (), {'__init__': lambda self, *a, **kw: None})
        else:
            v = Stub(self.__name__ + '.' + k)
        setattr(self, k, v)
        return v

    def __call__(self, *a, **k):
        return None


# ---- builtins that must understand symbolic values ------------------------------------------------

def sym_int(x=0, *a):
    if a:
        return builtins.int(x, *a)
    if isinstance(x, (SInt, SBV)):
        return x
    if isinstance(x, SFP):
        return core.cast(x, core.DTI)
    if isinstance(x, (XR, core.EFP)):
        return core.cast(x, core.DTI)
    if isinstance(x, SBool):
        return core._as_num(x)
    if hasattr(x, '__symint__'):
        return x.__symint__()
    if hasattr(x, 'a') and hasattr(x, 'dt') and getattr(x, 'size', None) == 1:
        e = x.a.reshape(-1)[0]
        return sym_int(e) if is_sym(e) else builtins.int(e)
    return builtins.int(x)


SYM_LITERAL = 'SYMF'


def sym_literal(value):
    """a string token that float() reads back as the given symbolic value (contract: float(repr(x)) == x)"""
    reg = core.CTX.notes.setdefault('symfloat', {})
    k = len(reg)
    reg[k] = value
    return '%s%d' % (SYM_LITERAL, k)


def sym_float(x=0.0):
    if isinstance(x, str) and x.startswith(SYM_LITERAL) and core.CTX is not None:
        reg = core.CTX.notes.get('symfloat', {})
        try:
            return reg[builtins.int(x[len(SYM_LITERAL):])]
        except (KeyError, ValueError):
            pass
    if isinstance(x, SFP):
        return core.cast(x, core.DT64)
    if isinstance(x, (XR, core.EFP)):
        return x
    if isinstance(x, (SInt, SBV)):
        return core.int_to_float(x)
    if isinstance(x, SBool):
        return core.int_to_float(core._as_num(x))
    if hasattr(x, '__symfloat__'):
        return x.__symfloat__()
    if hasattr(x, 'a') and hasattr(x, 'dt') and getattr(x, 'size', None) == 1:
        e = x.a.reshape(-1)[0]
        return sym_float(e) if is_sym(e) else builtins.float(e)
    return builtins.float(x)


class _IntMeta(type):
    def __instancecheck__(cls, x):
        return isinstance(x, (builtins.int, SInt, SBV))

    def __subclasscheck__(cls, c):
        return issubclass(c, builtins.int)

    def __call__(cls, *a, **k):
        return sym_int(*a, **k)


class Int(metaclass=_IntMeta):
    _py = builtins.int


class _FloatMeta(type):
    def __instancecheck__(cls, x):
        return isinstance(x, (builtins.float, SFP, XR, core.EFP))

    def __subclasscheck__(cls, c):
        return issubclass(c, builtins.float)

    def __call__(cls, *a, **k):
        return sym_float(*a, **k)


class Float(metaclass=_FloatMeta):
    _py = builtins.float
    fromhex = builtins.float.fromhex


def sym_range(*a):
    a = [core.concretize(x) if isinstance(x, (SInt, SBV)) else x for x in a]
    return range(*a)


def sym_len(x):
    if hasattr(x, '__symlen__'):
        return x.__symlen__()
    return len(x)


def quiet_print(*a, **k):
    return None


class Loader:
    """One Loader = one private universe of twin modules."""

    DEFAULT_STUBS = ('matplotlib', 'cartopy', 'shapely', 'pyproj', 'obspy', 'dateutil', 'csep.utils.plots')

    def __init__(self, root=None, models=None, stubs=None, extra_builtins=None):
        self.root = root or REPO
        from . import symnp, symscipy
        self.models = {'numpy': symnp, 'scipy': symscipy.scipy}
        self.models.update(models or {})
        self.stubs = set(self.DEFAULT_STUBS if stubs is None else stubs)
        self.mods = {}
        self.files = []
        b = dict(vars(builtins))
        b['__import__'] = self._imp
        b['int'] = Int
        b['float'] = Float
        b['range'] = sym_range
        b['len'] = sym_len
        b['print'] = quiet_print
        b.update(extra_builtins or {})
        self.b = b

    # -- import hook -------------------------------------------------------------------------------
    def _imp(self, name, globals=None, locals=None, fromlist=(), level=0):
        if level:
            pkg = (globals or {}).get('__package__') or (globals or {}).get('__name__', '').rpartition('.')[0]
            base = pkg.split('.')
            if level > 1:
                base = base[:-(level - 1)]
            name = '.'.join(base + ([name] if name else []))
        top = name.split('.')[0]
        if top in self.models or name in self.models:
            if name in self.models:
                m = self.models[name]
                return m if fromlist or '.' not in name else self.models[top]
            # submodule of a model package: attribute chain on the model
            m = self.models[top]
            if fromlist:
                for part in name.split('.')[1:]:
                    m = getattr(m, part)
                return m
            return m
        if name in self.stubs or top in self.stubs:
            return self._stub(name, fromlist)
        if top == 'csep':
            m = self.load(name)
            if fromlist:
                for fn_ in fromlist:
                    if fn_ != '*' and not hasattr(m, fn_) and hasattr(m, '__path__'):
                        try:
                            self.load(name + '.' + fn_)
                        except FileNotFoundError:
                            pass
                return m
            return self.mods['csep']
        return builtins.__import__(name, globals, locals, fromlist, level)

    def _stub(self, name, fromlist):
        parts = name.split('.')
        top = parts[0]
        if top not in self.mods:
            self.mods[top] = Stub(top)
        m = self.mods[top]
        if not fromlist:
            # make sure the attribute chain exists
            cur = m
            for p in parts[1:]:
                cur = getattr(cur, p)
            return m
        cur = m
        for p in parts[1:]:
            cur = getattr(cur, p)
        return cur

    def load(self, name):
        if name in self.mods:
            return self.mods[name]
        parts = name.split('.')
        for i in range(1, len(parts)):
            self.load('.'.join(parts[:i]))
        if name in self.mods:           # loading a parent package may already have imported this module
            return self.mods[name]
        if name in self.stubs:
            m = Stub(name)
            self.mods[name] = m
            if len(parts) > 1:
                setattr(self.mods['.'.join(parts[:-1])], parts[-1], m)
            return m
        path = os.path.join(self.root, *parts)
        if os.path.isdir(path):
            fn = os.path.join(path, '__init__.py')
            ispkg = True
        else:
            fn = path + '.py'
            ispkg = False
        if not os.path.exists(fn):
            raise FileNotFoundError(fn)
        m = types.ModuleType(name)
        m.__file__ = fn
        m.__dict__['__builtins__'] = self.b
        m.__package__ = name if ispkg else name.rpartition('.')[0]
        if ispkg:
            m.__path__ = [path]
        self.mods[name] = m
        if len(parts) > 1:
            setattr(self.mods['.'.join(parts[:-1])], parts[-1], m)
        with open(fn) as f:
            src = f.read()
        self.files.append(fn)
        import warnings
        with warnings.catch_warnings():
            warnings.simplefilter('ignore')
            code = compile(src, fn, 'exec')
        try:
            exec(code, m.__dict__)
        except BaseException:
            del self.mods[name]
            raise
        return m

    def __getitem__(self, name):
        return self.load(name)


def functions_in(mod, names):
    """source locations of the functions a harness encodes, for the evidence file"""
    out = []
    for n in names:
        obj = mod
        for part in n.split('.'):
            obj = getattr(obj, part)
        code = getattr(obj, '__code__', None) or getattr(getattr(obj, '__func__', None), '__code__', None)
        if code is not None:
            out.append('%s:%d %s' % (os.path.relpath(code.co_filename, REPO), code.co_firstlineno, n))
        else:
            out.append(n)
    return out
