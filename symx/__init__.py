"""symx -- "csep-on-symnp": a small symbolic-execution engine for the real pyCSEP source.

core      path condition, re-execution path explorer, symbolic scalars (Bool / Int / BV64 / FP / XReal)
symnp     model of the numpy surface the anchored code touches (concrete in -> real numpy out)
symscipy  model of scipy.stats / scipy.special (uninterpreted functions + contracts)
symdt     model of datetime / calendar (instants as integer microseconds)
loader    re-import of /repo/csep/*.py under private builtins and a private __import__
harness   job runner, replay, known findings, evidence writer
"""
