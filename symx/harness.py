"""Job runner, known-findings protocol, replay files and evidence writer shared by all harnesses.

A harness module (harness/Cxx.py) provides
    ID, META (functions / bounds / outside / stubs / theory / assumptions)
    jobs(tier, seed)      -> list of picklable job descriptors (dicts with at least 'name')
    run_job(job)          -> dict with 'obligations': [Obligation.as_dict()], plus counters
    replay(cex)           -> (reproduced: bool, detail: str)      -- runs the *unmodified* csep
    KNOWN_KEYS            -> {key: description} of finding classes the harness can recognise
Exit codes: 0 held (or only listed known findings), 1 reproduced unlisted violation, 2 harness error.
"""
import hashlib
import json
import multiprocessing as mp
import os
import sys
import time
import traceback

VERIF = os.path.dirname(os.path.dirname(os.path.abspath(__file__)))
REPO = os.environ.get('VERIF_REPO', '/repo')
NPROC = int(os.environ.get('VERIF_NPROC', '16'))


class Obligation:
    """One solver query (or a family decided together)."""

    def __init__(self, name, status, time_s=0.0, cex=None, note='', candidate_only=False, known_key=None,
                 kind='property'):
        self.name = name
        self.status = status            # 'unsat' | 'sat' | 'unknown' | 'error'
        self.time_s = time_s
        self.cex = cex                  # plain-Python inputs for replay
        self.note = note
        self.candidate_only = candidate_only   # over-approximate theory: sat is only a candidate
        self.known_key = known_key      # this query was restricted to the known class `known_key`
        self.kind = kind                # 'property' | 'reach' (reachability twin: sat expected) | 'twin'
        self.reproduced = None
        self.detail = ''

    def as_dict(self):
        return dict(self.__dict__)


def load_known_findings():
    """known-findings.txt -> ({(prop, key): text}, [fixed lines])"""
    path = os.path.join(VERIF, 'known-findings.txt')
    finds, fixed = {}, []
    if os.path.exists(path):
        for line in open(path):
            line = line.strip()
            if not line or line.startswith('#'):
                continue
            if line.startswith('finding:'):
                rest = line[len('finding:'):].strip()
                parts = rest.split(None, 2)
                kv = dict(p.split('=', 1) for p in parts[:2] if '=' in p)
                finds[(kv.get('property'), kv.get('key'))] = parts[2] if len(parts) > 2 else ''
            elif line.startswith('fixed:'):
                fixed.append(line)
    return finds, fixed


def active_keys(prop):
    finds, _ = load_known_findings()
    return {k for (p, k) in finds if p == prop}


def _worker(args):
    modname, job = args
    t0 = time.time()
    try:
        sys.setrecursionlimit(20000)
        mod = __import__(modname, fromlist=['x'])
        res = mod.run_job(job)
        res.setdefault('name', job.get('name', '?'))
    except BaseException as e:       # a crash of the harness itself is a harness error, never a verdict
        res = {'name': job.get('name', '?'), 'obligations': [],
               'error': ''.join(traceback.format_exception(e))[-4000:]}
    res['wall_s'] = time.time() - t0
    return res


def _child(conn, modname, job):
    try:
        conn.send(_worker((modname, job)))
    except BaseException as e:
        try:
            conn.send({'name': job.get('name', '?'), 'obligations': [], 'error': 'worker failed: %r' % (e,)})
        except Exception:
            pass
    finally:
        conn.close()


def run_jobs(modname, jobs, nproc=NPROC, default_wall=900):
    """One process per job (fork), at most nproc at a time, hard wall-clock limit per job (job['wall'] seconds).
    A job that is killed or whose process dies yields one 'unknown' obligation -- never a verdict."""
    if not jobs:
        return []
    ctx = mp.get_context('fork')
    pending = list(enumerate(jobs))
    # longest first
    pending.sort(key=lambda ij: -ij[1].get('cost', 1))
    running = {}
    results = []
    while pending or running:
        while pending and len(running) < nproc:
            i, job = pending.pop(0)
            pc, cc = ctx.Pipe(duplex=False)
            p = ctx.Process(target=_child, args=(cc, modname, job), daemon=True)
            p.start()
            cc.close()
            running[i] = (p, pc, job, time.time())
        time.sleep(0.05)
        for i in list(running):
            p, pc, job, t0 = running[i]
            done = False
            if pc.poll():
                try:
                    results.append(pc.recv())
                except EOFError:
                    results.append(_lost(job, 'worker process died'))
                done = True
            elif not p.is_alive():
                if pc.poll():
                    continue
                results.append(_lost(job, 'worker process died (exit code %s)' % p.exitcode))
                done = True
            elif time.time() - t0 > job.get('wall', default_wall):
                p.kill()
                results.append(_lost(job, 'killed after the wall-clock limit of %ds' % job.get('wall', default_wall)))
                done = True
            if done:
                p.join(timeout=5)
                if p.is_alive():
                    p.kill()
                pc.close()
                del running[i]
    return results


def _lost(job, why):
    o = Obligation('job did not finish', 'unknown', note=why).as_dict()
    return {'name': job.get('name', '?'), 'obligations': [o], 'wall_s': job.get('wall', 0)}


def write_replay(prop, cex):
    d = os.path.join(VERIF, 'replays')
    os.makedirs(d, exist_ok=True)
    blob = json.dumps({'property': prop, 'cex': cex}, sort_keys=True, default=str)
    h = hashlib.sha1(blob.encode()).hexdigest()[:12]
    path = os.path.join(d, '%s-%s.json' % (prop, h))
    with open(path, 'w') as f:
        f.write(blob)
    return path


def main(mod, tier, seed):
    """Run a harness module end to end; prints VIOLATION / KNOWN-FINDING lines; returns exit code."""
    t0 = time.time()
    prop = mod.ID
    finds, fixed = load_known_findings()
    listed = {k: txt for (p, k), txt in finds.items() if p == prop}
    jobs = mod.jobs(tier, seed)
    results = run_jobs(mod.__name__, jobs)
    obligations = []
    errors = []
    counters = {'paths': 0, 'decisions': 0, 'queries': 0, 'solver_s': 0.0}
    samples = []
    for r in results:
        if r.get('error'):
            errors.append('%s: %s' % (r['name'], r['error']))
        for k in counters:
            counters[k] += r.get(k, 0)
        for o in r.get('obligations', []):
            o['job'] = r['name']
            obligations.append(o)
        samples.extend(r.get('samples', [])[:2])
    violations = []
    known_hits = {}
    harness_errors = list(errors)
    validated = 0
    n_prop = n_dis = n_unknown = n_cand = 0
    for o in obligations:
        kind = o.get('kind', 'property')
        if kind == 'reach':
            if o['status'] == 'sat' and o.get('reproduced'):
                validated += 1
            elif o['status'] == 'sat' and o.get('reproduced') is False:
                harness_errors.append('reachability witness of %s/%s does not match the real code: %s'
                                      % (o['job'], o['name'], o.get('detail', '')))
            elif o['status'] == 'unsat':
                harness_errors.append('vacuous harness: %s/%s unreachable' % (o['job'], o['name']))
            continue
        if kind == 'twin':
            if o['status'] == 'unsat':
                validated += 1
            else:
                harness_errors.append('concrete twin mismatch %s/%s: %s' % (o['job'], o['name'], o.get('detail', '')))
            continue
        n_prop += 1
        if o['status'] == 'unsat':
            n_dis += 1
            continue
        if o['status'] in ('unknown', 'error'):
            n_unknown += 1
            continue
        # sat
        if o.get('reproduced'):
            validated += 1
            key = o.get('known_key')
            if key is not None and key in listed:
                known_hits.setdefault(key, o)
            else:
                violations.append(o)
        elif o.get('candidate_only'):
            n_cand += 1
            n_unknown += 1
        else:
            harness_errors.append('counterexample of %s/%s does not reproduce on the real code: %s'
                                  % (o['job'], o['name'], o.get('detail', '')))
    # known findings that the harness looked for but that no longer show
    stale = [k for k in listed if k not in known_hits]
    for key, o in sorted(known_hits.items()):
        print('KNOWN-FINDING: property=%s key=%s %s' % (prop, key, listed[key]))
    for k in stale:
        print('note: listed finding property=%s key=%s was not reproduced by this run' % (prop, k))
    seen = set()
    for o in violations:
        path = write_replay(prop, o.get('cex'))
        if path in seen:
            continue
        seen.add(path)
        print('VIOLATION property=%s replay=%s' % (prop, path))
        print('  %s/%s: %s' % (o['job'], o['name'], (o.get('detail') or '')[:600]))
    wall = time.time() - t0
    meta = getattr(mod, 'META', {})
    cov = {
        'states': max(1, counters['paths']),
        'transitions': max(1, counters['decisions'] + counters['paths']),
        'traces_validated_against_impl': validated,
        'samples': (samples or [{'note': 'no sample recorded'}])[:12],
        'functions_encoded': meta.get('functions', []),
        'bounds': meta.get('bounds', {}).get(tier, meta.get('bounds', {})),
        'outside_bounds': meta.get('outside', []),
        'theory': meta.get('theory', ''),
        'stubs': meta.get('stubs', []),
        'jobs': len(jobs),
        'queries_total': counters['queries'],
        'obligations': n_prop,
        'discharged': n_dis,
        'inconclusive': n_unknown,
        'candidates_not_reproduced': n_cand,
        'solver_s': round(counters['solver_s'], 2),
        'known_findings_seen': sorted(known_hits),
        'harness_errors': harness_errors[:20],
        'obligation_table': [
            {'job': o['job'], 'name': o['name'], 'status': o['status'], 't': round(o.get('time_s', 0), 2),
             'kind': o.get('kind', 'property'), **({'known_key': o['known_key']} if o.get('known_key') else {}),
             **({'note': o['note']} if o.get('note') else {})}
            for o in obligations][:400],
        'encoding_regenerated_from': REPO,
    }
    ev = {
        'property_id': prop, 'tier': tier, 'seed': int(seed), 'level': 'model_checking',
        'coverage': cov,
        'assumptions': meta.get('assumptions', []),
        'wall_s': round(wall, 2),
        'violations': len(seen),
    }
    # evidence describes runs against /repo itself; a run against a scratch copy (VERIF_REPO) writes elsewhere
    evdir = os.path.join(VERIF, 'evidence') if os.path.abspath(REPO) == '/repo' else os.path.join(os.path.dirname(os.path.abspath(REPO)), 'evidence')
    os.makedirs(evdir, exist_ok=True)
    with open(os.path.join(evdir, '%s.json' % prop), 'w') as f:
        json.dump(ev, f, indent=1, default=str)
    print('%s tier=%s jobs=%d paths=%d obligations=%d discharged=%d inconclusive=%d known=%d violations=%d '
          'harness_errors=%d solver_s=%.1f wall_s=%.1f'
          % (prop, tier, len(jobs), counters['paths'], n_prop, n_dis, n_unknown, len(known_hits), len(seen),
             len(harness_errors), counters['solver_s'], wall))
    if seen:
        return 1
    if harness_errors:
        for e in harness_errors[:10]:
            print('HARNESS-ERROR: %s' % e[:1500], file=sys.stderr)
        return 2
    if n_prop and n_dis == 0 and not known_hits:
        print('HARNESS-ERROR: nothing could be decided', file=sys.stderr)
        return 2
    return 0
