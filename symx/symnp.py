"""Model of the numpy surface touched by the anchored pyCSEP code.

Rules (DESIGN 2.1): arrays have concrete shapes and symbolic elements; if every argument is concrete
the call is delegated to the real numpy; an attribute exists only if the real numpy has it.
All arrays that live in the re-imported ("twin") csep modules are SArr / SRec instances.
"""
import builtins
import operator
import types

import numpy as rnp
import z3

from . import core
from .core import (SBool, SInt, SBV, SFP, XR, Sym, is_sym, sel, decide, NotModelled, cast, kind, ne0,
                   DT64, DT32, DTI, DTB)

_frompy = rnp.frompyfunc


class _NDMeta(type):
    def __instancecheck__(cls, x):
        if cls is ndarray:
            return isinstance(x, (SArr, SRec, rnp.ndarray))
        return type.__instancecheck__(cls, x)


class ndarray(metaclass=_NDMeta):
    __array_ufunc__ = None


def _has_sym(a):
    if a.dtype != object:
        return False
    for e in a.flat:
        if is_sym(e):
            return True
    return False


def _elem_dt(a, default=DT64):
    for e in a.flat:
        if is_sym(e):
            return e.dtype
    return default


def mk(a, dt=None):
    """numpy array (native or object) -> SArr, normalising concrete object arrays to native dtype"""
    if isinstance(a, SArr):
        return a
    a = rnp.asarray(a) if not isinstance(a, rnp.ndarray) else a
    if a.dtype == object:
        if not _has_sym(a):
            if dt is not None and dt != object:
                try:
                    return SArr(rnp.array(a.tolist(), dtype=dt).reshape(a.shape), dt)
                except (TypeError, ValueError):
                    pass
            else:
                try:
                    b = rnp.array(a.tolist())
                    if b.dtype != object and b.shape == a.shape:
                        return SArr(b, b.dtype)
                except (TypeError, ValueError):
                    pass
            return SArr(a, rnp.dtype(object) if dt is None else dt)
        if dt is None:
            dt = _elem_dt(a)
        return SArr(a, dt)
    return SArr(a, a.dtype)


def wrap(x):
    """result of a real numpy call -> twin-land value"""
    if isinstance(x, rnp.ma.MaskedArray):
        return SMasked(mk(rnp.asarray(x.data)), mk(rnp.ma.getmaskarray(x)))
    if isinstance(x, rnp.ndarray):
        if x.dtype.names:
            return SRec.from_real(x)
        return mk(x)
    if isinstance(x, tuple):
        return tuple(wrap(e) for e in x)
    if isinstance(x, list):
        return [wrap(e) for e in x]
    return x


class _Symbolic(Exception):
    pass


def unwrap(x):
    """twin-land value -> real numpy value; raises _Symbolic if impossible"""
    if isinstance(x, SArr):
        if x.a.dtype == object:
            if _has_sym(x.a):
                raise _Symbolic()
            if x.dt != object:
                try:
                    return rnp.array(x.a.tolist(), dtype=x.dt).reshape(x.a.shape)
                except (TypeError, ValueError):
                    pass
        return x.a
    if isinstance(x, SRec):
        return x.to_real()
    if isinstance(x, SMasked):
        return rnp.ma.MaskedArray(unwrap(x.data), mask=unwrap(x.mask))
    if is_sym(x):
        raise _Symbolic()
    if isinstance(x, (list, tuple)):
        return type(x)(unwrap(e) for e in x)
    if isinstance(x, dict):
        return {k: unwrap(v) for k, v in x.items()}
    if isinstance(x, (NonzeroIdx, LazyIdx)):
        raise _Symbolic()
    return x


def delegate(fn, *args, **kw):
    return wrap(fn(*unwrap(args), **unwrap(kw)))


def all_concrete(*xs):
    try:
        unwrap(xs)
        return True
    except _Symbolic:
        return False


def _dt_of(x):
    """operand for numpy.result_type: dtype for arrays / numpy scalars / symbolic scalars, value for python scalars"""
    if isinstance(x, SArr):
        return x.dt
    if is_sym(x):
        return x.dtype
    if isinstance(x, rnp.generic):
        return x.dtype
    if isinstance(x, (bool, int, float)):
        return x
    if isinstance(x, rnp.ndarray):
        return x.dtype
    return rnp.asarray(x).dtype


def _obj(x):
    """operand -> object ndarray (or scalar) with Python-scalar / Sym elements"""
    if isinstance(x, SArr):
        return x.a if x.a.dtype == object else x.a.astype(object)
    if isinstance(x, rnp.ndarray):
        return x.astype(object)
    if isinstance(x, rnp.generic):
        return x.item()
    if isinstance(x, (list, tuple)):
        return _obj(asarray(x))
    return x


def _oa(x):
    """symbolic scalars cannot be handed to a numpy ufunc directly (__array_ufunc__ = None): box them"""
    if is_sym(x):
        a0 = rnp.empty((), dtype=object)
        a0[()] = x
        return a0
    return x


def _precast(o, dt):
    """cast symbolic float elements to dt before an arithmetic op (numpy promotion)"""
    if dt.kind != 'f':
        return o
    def c(e):
        if isinstance(e, SFP) and e.dtype != dt:
            return cast(e, dt)
        if isinstance(e, SBV):
            return cast(e, dt)
        return e
    if isinstance(o, rnp.ndarray):
        return _frompy(c, 1, 1)(o) if o.size else o
    return c(o)


_ARITH = {'add': operator.add, 'sub': operator.sub, 'mul': operator.mul, 'truediv': operator.truediv,
          'pow': operator.pow, 'floordiv': operator.floordiv, 'mod': operator.mod}
_CMP = {'lt': operator.lt, 'le': operator.le, 'gt': operator.gt, 'ge': operator.ge, 'eq': operator.eq, 'ne': operator.ne}
_LOGIC = {'and': operator.and_, 'or': operator.or_, 'xor': operator.xor}


def _is_arraylike(x):
    return isinstance(x, (SArr, rnp.ndarray, list, tuple))


def binop(x, y, name):
    """elementwise binary operation with numpy broadcasting and dtype promotion"""
    if isinstance(x, SMasked) or isinstance(y, SMasked):
        return SMasked.binop(x, y, name)
    if all_concrete(x, y):
        f = _ARITH.get(name) or _CMP.get(name) or _LOGIC[name]
        return wrap(f(unwrap(x), unwrap(y)))
    if isinstance(x, (list, tuple)):
        x = asarray(x)
    if isinstance(y, (list, tuple)):
        y = asarray(y)
    if name in _ARITH:
        rdt = rnp.result_type(_dt_of(x), _dt_of(y))
        if name == 'truediv' and rdt.kind in 'iub':
            rdt = DT64
        if rdt.kind == 'b' and name in ('add', 'sub', 'mul'):
            rdt = DTB if name != 'sub' else DTI
        f = _ARITH[name]
        ox, oy = _precast(_obj(x), rdt), _precast(_obj(y), rdt)
    elif name in _CMP:
        rdt = DTB
        f = _CMP[name]
        cdt = rnp.result_type(_dt_of(x), _dt_of(y))
        ox, oy = _precast(_obj(x), cdt), _precast(_obj(y), cdt)
    else:
        rdt = rnp.result_type(_dt_of(x), _dt_of(y))
        f = _LOGIC[name]
        ox, oy = _obj(x), _obj(y)
    if not isinstance(ox, rnp.ndarray) and not isinstance(oy, rnp.ndarray):
        return f(ox, oy)
    r = _frompy(f, 2, 1)(_oa(ox), _oa(oy))
    if not isinstance(r, rnp.ndarray):
        if is_sym(r) and (isinstance(x, SArr) or isinstance(y, SArr)):
            a0 = rnp.empty((), dtype=object)       # 0-d operands: keep array capabilities (astype, mask index)
            a0[()] = r
            return SArr(a0, rdt)
        return r
    return mk(r, rdt)


def unop(x, fn_sym, fn_real, rdt=None):
    if all_concrete(x):
        return wrap(fn_real(unwrap(x)))
    if isinstance(x, SArr):
        r = _frompy(lambda e: fn_sym(e) if is_sym(e) else fn_real(e), 1, 1)(_obj(x))
        return mk(r, rdt or x.dt)
    return fn_sym(x)


# ----------------------------------------------------------------------------------------------


class LazyIdx(ndarray):
    """numpy.where(cond)[0] for a symbolic 1-D condition without forking on every element: the length is the
    symbolic count of true entries, element k is an ite-chain ("k-th true index"); only [0] is needed by the code."""
    __array_ufunc__ = None

    def __init__(self, cond):
        self.cond = cond
        self.dt = DTI
        self._mat = None

    def _terms(self):
        return [ne0(e) for e in self.cond.a.reshape(-1)]

    def __symlen__(self):
        ts = self._terms()
        tot = 0
        for t in ts:
            tot = tot + (core.R(t) if core.MODE['float'] == 'xr' else t)
        if isinstance(tot, XR):
            return core.cast(tot, DTI)
        return tot

    def __len__(self):
        return len(self.materialise())

    @property
    def shape(self):
        return (len(self),)

    def first(self):
        ts = self._terms()
        r = None
        for j in range(len(ts) - 1, -1, -1):
            t = ts[j]
            if r is None:
                r = j
            elif is_sym(t):
                r = sel(t.t, j, r)
            elif t:
                r = j
        return r

    def __getitem__(self, k):
        if isinstance(k, (int, rnp.integer)) and int(k) == 0:
            n = self.__symlen__()
            if is_sym(n):
                if core.OPT['lazy_bounds']:
                    core.lazy_assert((n > 0).t, 'IndexError: index 0 is out of bounds for axis 0 with size 0')
                elif not bool(n > 0):
                    raise IndexError('index 0 is out of bounds for axis 0 with size 0')
            elif n == 0:
                raise IndexError('index 0 is out of bounds for axis 0 with size 0')
            return self.first()
        return self.materialise()[k]

    def materialise(self):
        if self._mat is None:
            n = self.__symlen__()
            if is_sym(n) and core.check([(n > 0).t], 20000) == 'unsat':
                self._mat = mk(rnp.zeros(0, dtype=rnp.int64))          # provably empty on this path
            else:
                m = self.cond.concretise_mask()
                self._mat = mk(rnp.nonzero(m.reshape(-1))[0])
        return self._mat

    @property
    def a(self):
        return self.materialise().a

    def astype(self, dt, **k):
        return self.materialise().astype(dt, **k)

    def tolist(self):
        return self.materialise().tolist()

    def __iter__(self):
        return iter(self.materialise())


class NonzeroIdx:
    """Lazy result of numpy.where(cond)/nonzero(cond) on a symbolic 1-D/N-D condition.

    Used as an index for assignment it behaves like the boolean mask itself (no fork);
    anything else materialises it by forking on every element."""

    def __init__(self, cond):
        self.cond = cond            # SArr of bool
        self._mat = None

    def materialise(self):
        if self._mat is None:
            m = self.cond.concretise_mask()
            self._mat = tuple(mk(i) for i in rnp.nonzero(m))
        return self._mat

    def __getitem__(self, k):
        if self._mat is None and self.cond.a.ndim == 1 and isinstance(k, (int, rnp.integer)) and int(k) == 0:
            return LazyIdx(self.cond)
        return self.materialise()[k]

    def __iter__(self):
        return iter(self.materialise())

    def __len__(self):
        return self.cond.a.ndim


def _norm_elem(v):
    if isinstance(v, rnp.generic):
        return v.item()
    return v


class SArr(ndarray):
    __array_ufunc__ = None
    __array_priority__ = 1000

    def __init__(self, a, dt):
        self.a = a
        self.dt = rnp.dtype(dt)

    # -- structure
    @property
    def dtype(self): return self.dt
    @property
    def shape(self): return self.a.shape
    @property
    def ndim(self): return self.a.ndim
    @property
    def size(self): return self.a.size
    @property
    def T(self): return SArr(self.a.T, self.dt)
    @property
    def flat(self): return iter(self.ravel())
    @property
    def symbolic(self): return self.a.dtype == object and _has_sym(self.a)
    @property
    def data(self): return self

    def __len__(self):
        return len(self.a)

    def __iter__(self):
        if self.a.ndim == 0:
            raise TypeError('iteration over a 0-d array')
        for i in range(self.a.shape[0]):
            yield self[i]

    def __repr__(self):
        return 'SArr(%r, %s)' % (self.a, self.dt)

    def __bool__(self):
        if self.a.size != 1:
            raise ValueError('The truth value of an array with more than one element is ambiguous. '
                             'Use a.any() or a.all()')
        e = self.a.reshape(-1)[0]
        r = ne0(e)
        return bool(r)

    def __index__(self):
        if self.a.size != 1 or self.dt.kind not in 'iu':
            raise TypeError('only integer scalar arrays can be converted to a scalar index')
        return operator.index(self.a.reshape(-1)[0])

    def _structural(self, name, *args, **kw):
        return mk(getattr(self.a, name)(*args, **kw), self.dt)

    def ravel(self, *a, **k): return SArr(self.a.ravel(*a, **k), self.dt)
    def flatten(self, *a, **k): return SArr(self.a.flatten(*a, **k), self.dt)
    def transpose(self, *a): return SArr(self.a.transpose(*a), self.dt)
    def squeeze(self, *a, **k): return SArr(self.a.squeeze(*a, **k), self.dt)
    def swapaxes(self, *a): return SArr(self.a.swapaxes(*a), self.dt)
    def repeat(self, *a, **k): return SArr(self.a.repeat(*a, **k), self.dt)

    def reshape(self, *shape, **k):
        shape = tuple(operator.index(s) if not isinstance(s, (tuple, list)) else tuple(s) for s in shape)
        return SArr(self.a.reshape(*shape, **k), self.dt)

    def copy(self, *a, **k):
        return SArr(self.a.copy(), self.dt)

    def tolist(self):
        return self.a.tolist()

    def item(self, *a):
        return _norm_elem(self.a.item(*a)) if self.a.dtype == object else self.a.item(*a)

    def view(self, *a, **k):
        if self.symbolic:
            raise NotModelled('view of symbolic array')
        return wrap(self.a.view(*a, **k))

    def fill(self, v):
        if is_sym(v) and self.a.dtype != object:
            self.a = self.a.astype(object)
        if self.a.dtype == object:
            self.a[...] = _norm_elem(v)
        else:
            self.a.fill(v)

    def astype(self, dt, **k):
        dt = _model_dtype(dt)
        has_tok = self.a.dtype == object and builtins.any(isinstance(e, str) and e.startswith('SYMF') for e in self.a.flat)
        if not self.symbolic and not has_tok:
            a = self.a if self.a.dtype != object else rnp.array(self.a.tolist(), dtype=self.dt).reshape(self.a.shape)
            return mk(a.astype(dt, **k))
        def c(e):
            if is_sym(e):
                return cast(e, dt)
            if isinstance(e, str) and e.startswith('SYMF') and core.CTX is not None and dt.kind == 'f':
                reg = core.CTX.notes.get('symfloat', {})
                try:
                    return reg[int(e[4:])]                   # literal token of a symbolic number
                except (KeyError, ValueError):
                    pass
            return rnp.asarray(e).astype(dt).item() if dt != object else e
        return mk(_frompy(c, 1, 1)(self.a), dt)

    # -- indexing
    def _key(self, k):
        """classify an index: returns (mode, key) with mode in concrete / mask / gather / lazy"""
        if isinstance(k, NonzeroIdx):
            return 'lazy', k
        ks = k if isinstance(k, tuple) else (k,)
        if len(ks) >= 1 and builtins.all(isinstance(e, NonzeroIdx) for e in ks):
            return 'lazy', ks[0]
        out = []
        mode = 'concrete'
        for e in ks:
            if isinstance(e, SArr):
                if e.symbolic:
                    if e.dt.kind == 'b':
                        mode = 'mask' if mode in ('concrete', 'mask') else 'mixed'
                    else:
                        mode = 'gather' if mode in ('concrete', 'gather') else 'mixed'
                    out.append(e)
                else:
                    out.append(e.a if e.a.dtype != object else rnp.array(e.a.tolist(), dtype=e.dt).reshape(e.a.shape))
            elif isinstance(e, (SInt, SBV)):
                mode = 'gather' if mode in ('concrete', 'gather') else 'mixed'
                out.append(e)
            elif isinstance(e, SBool):
                a0 = rnp.empty((), dtype=object)
                a0[()] = e
                mode = 'mask' if mode in ('concrete', 'mask') else 'mixed'
                out.append(SArr(a0, DTB))
            elif isinstance(e, NonzeroIdx):
                m = e.materialise()
                out.extend(x.a for x in m)
            elif isinstance(e, list):
                if builtins.any(is_sym(v) for v in e):
                    ee = asarray(e)
                    mode = 'gather' if mode in ('concrete', 'gather') else 'mixed'
                    out.append(ee)
                else:
                    out.append([operator.index(v) if isinstance(v, (SArr,)) else v for v in e])
            else:
                out.append(e)
        if mode == 'mixed':
            raise NotModelled('index mixing symbolic masks and symbolic integers')
        return mode, (tuple(out) if isinstance(k, tuple) else out[0])

    def __getitem__(self, k):
        if isinstance(k, str):
            raise IndexError('only integers, slices (`:`), ellipsis (`...`), numpy.newaxis (`None`) and integer '
                             'or boolean arrays are valid indices')
        mode, key = self._key(k)
        if mode == 'concrete':
            r = self.a[key]
            if isinstance(r, rnp.ndarray):
                return SArr(r, self.dt)
            if self.a.dtype == object:
                r = _norm_elem(r)
                if not is_sym(r) and isinstance(r, (bool, int, float)) and self.dt.kind in 'fiub':
                    return self.dt.type(r)          # concrete element of a mixed array: numpy scalar of the array dtype
                return r
            return r
        if mode == 'lazy':
            return self[key.cond]
        if mode == 'mask':
            if isinstance(key, tuple):
                if len(key) != 1:
                    raise NotModelled('symbolic mask inside a tuple index')
                key = key[0]
            m = key.concretise_mask()
            return self[m]
        return self._gather(key)

    def _gather(self, key):
        ks = key if isinstance(key, tuple) else (key,)
        if len(ks) > self.a.ndim:
            raise IndexError('too many indices for array')
        if builtins.any(isinstance(e, slice) or e is None or e is Ellipsis for e in ks):
            raise NotModelled('symbolic integer index combined with slices')
        # broadcast index operands
        obs = [(_obj(e) if isinstance(e, (SArr, rnp.ndarray, list)) else e) for e in ks]
        arrs = [rnp.asarray(o, dtype=object) if not isinstance(o, rnp.ndarray) else o for o in obs]
        bshape = rnp.broadcast_shapes(*[a.shape for a in arrs])
        arrs = [rnp.broadcast_to(a, bshape) for a in arrs]
        sub = self.a if self.a.dtype == object else self.a.astype(object)
        nlead = len(ks)
        dims = sub.shape[:nlead]
        rest = sub.shape[nlead:]
        out = rnp.empty(bshape + rest, dtype=object)
        for pos in rnp.ndindex(*bshape):
            idxs = [a[pos] for a in arrs]
            cells = _select(sub, idxs, dims)
            out[pos] = cells
        if out.shape == ():
            return _norm_elem(out[()])
        return mk(out, self.dt)

    def __setitem__(self, k, v):
        mode, key = self._key(k)
        if isinstance(v, SArr):
            vv = v.a
            vsym = v.a.dtype == object
        elif isinstance(v, (list, tuple)) and builtins.any(is_sym(e) for e in v):
            vv = rnp.array(list(v), dtype=object)
            vsym = True
        else:
            vv = _norm_elem(v)
            vsym = is_sym(v)
        if mode == 'concrete':
            if vsym and self.a.dtype != object:
                self.a = self.a.astype(object)
            if self.a.dtype == object and isinstance(vv, rnp.ndarray) and vv.dtype != object:
                vv = vv.astype(object)
            if self.a.dtype == object and not isinstance(vv, rnp.ndarray) and not is_sym(vv):
                vv = _coerce_const(vv, self.dt)
            self.a[key] = vv
            return
        if mode in ('mask', 'lazy'):
            cond = key.cond if mode == 'lazy' else (key[0] if isinstance(key, tuple) else key)
            if cond.a.shape != self.a.shape:
                if cond.a.shape != self.a.shape[:cond.a.ndim]:
                    raise IndexError('boolean index did not match indexed array')
                cm = cond.a.reshape(cond.a.shape + (1,) * (self.a.ndim - cond.a.ndim))
            else:
                cm = cond.a
            if isinstance(vv, rnp.ndarray) and vv.size != 1:
                raise NotModelled('assigning an array through a symbolic mask')
            if isinstance(vv, rnp.ndarray):
                vv = _norm_elem(vv.reshape(-1)[0])
            if not is_sym(vv):
                vv = _coerce_const(vv, self.dt)
            cur = self.a if self.a.dtype == object else self.a.astype(object)
            new = _frompy(lambda c, old: sel(c, vv, old), 2, 1)(_oa(cm), cur)
            self._set_all(new)
            return
        # gather-style assignment with symbolic integer indices
        ks = key if isinstance(key, tuple) else (key,)
        obs = [(_obj(e) if isinstance(e, (SArr, rnp.ndarray, list)) else e) for e in ks]
        arrs = [rnp.asarray(o, dtype=object) if not isinstance(o, rnp.ndarray) else o for o in obs]
        bshape = rnp.broadcast_shapes(*[a.shape for a in arrs])
        arrs = [rnp.broadcast_to(a, bshape) for a in arrs]
        if len(ks) != self.a.ndim:
            raise NotModelled('partial symbolic index assignment')
        vals = rnp.broadcast_to(rnp.asarray(vv, dtype=object) if not isinstance(vv, rnp.ndarray) else vv.astype(object), bshape)
        cur = (self.a if self.a.dtype == object else self.a.astype(object)).copy()
        dims = cur.shape
        for pos in rnp.ndindex(*bshape):
            idxs = [a[pos] for a in arrs]
            conds = _index_conds(idxs, dims)
            val = _norm_elem(vals[pos])
            if not is_sym(val):
                val = _coerce_const(val, self.dt)
            for cell in rnp.ndindex(*dims):
                c = z3.And([conds[d][cell[d]] for d in range(len(dims))]) if len(dims) > 1 else conds[0][cell[0]]
                cur[cell] = sel(c, val, cur[cell])
        self._set_all(cur)

    def _set_all(self, new):
        if self.a.dtype == object:
            self.a[...] = new
        else:
            self.a = new

    def concretise_mask(self):
        """fork on every element of a symbolic boolean array -> real bool ndarray"""
        if self.a.dtype != object:
            return self.a.astype(bool)
        out = rnp.zeros(self.a.shape, dtype=bool)
        for pos in rnp.ndindex(*self.a.shape):
            out[pos] = bool(ne0(self.a[pos]))
        return out

    # -- operators
    def __add__(self, o): return binop(self, o, 'add')
    def __radd__(self, o): return binop(o, self, 'add')
    def __sub__(self, o): return binop(self, o, 'sub')
    def __rsub__(self, o): return binop(o, self, 'sub')
    def __mul__(self, o): return binop(self, o, 'mul')
    def __rmul__(self, o): return binop(o, self, 'mul')
    def __truediv__(self, o): return binop(self, o, 'truediv')
    def __rtruediv__(self, o): return binop(o, self, 'truediv')
    def __floordiv__(self, o): return binop(self, o, 'floordiv')
    def __mod__(self, o): return binop(self, o, 'mod')
    def __pow__(self, o): return binop(self, o, 'pow')
    def __lt__(self, o): return binop(self, o, 'lt')
    def __le__(self, o): return binop(self, o, 'le')
    def __gt__(self, o): return binop(self, o, 'gt')
    def __ge__(self, o): return binop(self, o, 'ge')
    def __eq__(self, o): return binop(self, o, 'eq')
    def __ne__(self, o): return binop(self, o, 'ne')
    def __and__(self, o): return binop(self, o, 'and')
    def __rand__(self, o): return binop(o, self, 'and')
    def __or__(self, o): return binop(self, o, 'or')
    def __ror__(self, o): return binop(o, self, 'or')
    def __xor__(self, o): return binop(self, o, 'xor')
    __hash__ = None

    def _inplace(self, o, name):
        r = binop(self, o, name)
        if isinstance(r, SArr):
            if r.a.shape != self.a.shape:
                raise ValueError('non-broadcastable output operand')
            if r.a.dtype == object or self.a.dtype == object:
                if self.a.dtype != object:
                    self.a = self.a.astype(object)
                self.a[...] = r.a
            else:
                self.a[...] = r.a          # numpy casting rules for same-kind in-place
        else:
            self.fill(r)
        return self

    def __iadd__(self, o): return self._inplace(o, 'add')
    def __isub__(self, o): return self._inplace(o, 'sub')
    def __imul__(self, o): return self._inplace(o, 'mul')
    def __itruediv__(self, o): return self._inplace(o, 'truediv')

    def __neg__(self): return unop(self, operator.neg, operator.neg)
    def __pos__(self): return self
    def __abs__(self): return unop(self, builtins.abs, rnp.abs)

    def __invert__(self):
        if not self.symbolic:
            return wrap(~unwrap(self))
        if self.dt.kind != 'b':
            raise NotModelled('~ on non-boolean symbolic array')
        return mk(_frompy(lambda e: ~e if is_sym(e) else (not e), 1, 1)(self.a), DTB)

    # -- reductions / methods
    def sum(self, axis=None, **k): return sum(self, axis=axis, **k)
    def cumsum(self, axis=None): return cumsum(self, axis=axis)
    def min(self, axis=None): return amin(self, axis=axis)
    def max(self, axis=None): return amax(self, axis=axis)
    def mean(self, axis=None): return mean(self, axis=axis)
    def any(self, axis=None): return any(self, axis=axis)
    def all(self, axis=None): return all(self, axis=axis)
    def argmin(self, *a, **k): return argmin(self, *a, **k)
    def argmax(self, *a, **k): return argmax(self, *a, **k)
    def nonzero(self): return nonzero(self)
    def round(self, decimals=0): return around(self, decimals)
    def dot(self, o): return dot(self, o)
    def sort(self, axis=-1, kind=None):
        r = sort(self, axis=axis)
        self._set_all(r.a) if self.a.dtype == object else setattr(self, 'a', r.a)
    def searchsorted(self, v, side='left', sorter=None): return searchsorted(self, v, side=side, sorter=sorter)

    def __getattr__(self, name):
        # anything not modelled: available for concrete arrays only, and only if real ndarray has it
        if name.startswith('__'):
            raise AttributeError(name)
        real = getattr(rnp.ndarray, name)      # AttributeError if numpy does not have it
        if self.symbolic:
            raise NotModelled('ndarray.%s on a symbolic array' % name)
        a = unwrap(self)
        attr = getattr(a, name)
        if callable(attr):
            return lambda *args, **kw: wrap(attr(*unwrap(args), **unwrap(kw)))
        return wrap(attr)


def _coerce_const(v, dt):
    """a concrete value stored into an array of logical dtype dt keeps numpy's conversion"""
    try:
        if dt.kind == 'f':
            return float(v)
        if dt.kind in 'iu':
            return int(v)
        if dt.kind == 'b':
            return bool(v)
    except (TypeError, ValueError):
        pass
    return v


def _index_conds(idxs, dims):
    """per dimension: list of z3 Bool 'index selects position j' (with negative wrap); forks on bounds"""
    conds = []
    for d, i in enumerate(idxs):
        n = dims[d]
        if is_sym(i):
            if isinstance(i, XR):
                i = cast(i, DTI)
            if isinstance(i, SBool):
                raise NotModelled('boolean scalar as index')
            inb = (i >= -n) & (i < n)
            if core.OPT['lazy_bounds']:
                core.lazy_assert(inb.t, 'IndexError: index out of bounds for axis %d with size %d' % (d, n))
            elif not bool(inb):
                raise IndexError('index out of bounds for axis %d with size %d' % (d, n))
            conds.append([((i == j) | (i == j - n)).t for j in range(n)])
        else:
            j0 = operator.index(i)
            if j0 < -n or j0 >= n:
                raise IndexError('index %d is out of bounds for axis %d with size %d' % (j0, d, n))
            j0 %= n
            conds.append([z3.BoolVal(j == j0) for j in range(n)])
    return conds


def _select(sub, idxs, dims):
    """element (or sub-array) of object array `sub` at symbolic position idxs (ite-chain)"""
    conds = _index_conds(idxs, dims)
    rest_shape = sub.shape[len(dims):]

    def pick(cells_for):
        res = None
        for cell in rnp.ndindex(*dims):
            c = z3.And([conds[d][cell[d]] for d in range(len(dims))]) if len(dims) > 1 else conds[0][cell[0]]
            c = z3.simplify(c)
            if z3.is_false(c):
                continue
            v = cells_for(cell)
            res = v if res is None else sel(c, v, res)
        return res

    if rest_shape == ():
        return pick(lambda cell: _norm_elem(sub[cell]))
    out = rnp.empty(rest_shape, dtype=object)
    for r in rnp.ndindex(*rest_shape):
        out[r] = pick(lambda cell: _norm_elem(sub[cell + r]))
    return out


# ---- structured arrays (catalogs) ---------------------------------------------------------------

class SRec(ndarray):
    """1-D structured array: one SArr column per field."""
    __array_ufunc__ = None

    def __init__(self, cols, dtype):
        self.cols = cols                # dict name -> SArr (1-D, same length)
        self.dt = rnp.dtype(dtype)

    @classmethod
    def from_real(cls, a):
        a = rnp.atleast_1d(a)
        return cls({n: mk(rnp.array(a[n])) for n in a.dtype.names}, a.dtype)

    def to_real(self):
        n = len(self)
        out = rnp.empty(n, dtype=self.dt)
        for name in self.dt.names:
            out[name] = unwrap(self.cols[name])
        return out

    @property
    def dtype(self): return self.dt
    @property
    def shape(self): return (len(self),)
    @property
    def ndim(self): return 1
    @property
    def size(self): return len(self)
    @property
    def symbolic(self):
        return builtins.any(c.symbolic for c in self.cols.values())

    def __len__(self):
        return len(next(iter(self.cols.values()))) if self.cols else 0

    def __getitem__(self, k):
        if isinstance(k, str):
            if k not in self.cols:
                raise ValueError('no field of name %s' % k)
            return self.cols[k]
        if isinstance(k, (int, rnp.integer)):
            return SRow(self, int(k))
        if isinstance(k, SArr) and k.symbolic and k.dt.kind == 'b':
            k = k.concretise_mask()
        return SRec({n: c[k] for n, c in self.cols.items()}, self.dt)

    def __setitem__(self, k, v):
        if isinstance(k, str):
            self.cols[k][...] = v
            return
        if isinstance(k, (int, rnp.integer)):
            if not isinstance(v, tuple) or len(v) != len(self.dt.names):
                raise ValueError('could not assign tuple of length %s to structure with %d fields'
                                 % (len(v) if hasattr(v, '__len__') else '?', len(self.dt.names)))
            for n, e in zip(self.dt.names, v):
                fdt = self.dt[n]
                if not is_sym(e):
                    if isinstance(e, _OpaqueField):
                        pass
                    else:
                        e = rnp.array(e).astype(fdt).item() if fdt.kind != 'S' else rnp.array(e, dtype=fdt).item()
                self.cols[n][k] = e
            return
        raise NotModelled('SRec assignment with key %r' % (k,))

    def __iter__(self):
        for i in range(len(self)):
            yield self[i]

    def copy(self):
        return SRec({n: c.copy() for n, c in self.cols.items()}, self.dt)

    def tolist(self):
        cols = [self.cols[n].tolist() for n in self.dt.names]
        return [tuple(c[i] for c in cols) for i in range(len(self))]

    def __repr__(self):
        return 'SRec(%r)' % (self.cols,)

    def __eq__(self, o):
        raise NotModelled('SRec ==')
    __hash__ = None


class SRow(tuple):
    """one record of a structured array (numpy.void): a tuple of the field values that can also be read and written by
    field name, writes going through to the array"""
    def __new__(cls, rec, i):
        o = tuple.__new__(cls, tuple(rec.cols[n][i] for n in rec.dt.names))
        o._rec, o._i = rec, i
        return o

    def __getitem__(self, k):
        if isinstance(k, str):
            if k not in self._rec.cols:
                raise ValueError('no field of name %s' % k)
            return self._rec.cols[k][self._i]
        return tuple.__getitem__(self, k)

    def __setitem__(self, k, v):
        if not isinstance(k, str):
            raise NotModelled('positional assignment into a record')
        self._rec.cols[k][self._i] = v

    @property
    def dtype(self):
        return self._rec.dt


class Rec0d:
    """what numpy.genfromtxt returns for a file with a single data row: a 0-d structured array. It cannot be iterated or
    measured; numpy.atleast_1d turns it into the one-row table."""
    def __init__(self, rec):
        self._rec = rec

    @property
    def ndim(self): return 0
    @property
    def shape(self): return ()
    @property
    def dtype(self): return self._rec.dt

    def __iter__(self):
        raise TypeError('iteration over a 0-d array')

    def __len__(self):
        raise TypeError('len() of unsized object')

    def __getitem__(self, k):
        if isinstance(k, str):
            return self._rec.cols[k][0]
        raise IndexError('too many indices for array: array is 0-dimensional')

    def copy(self):
        return Rec0d(self._rec.copy())


class _OpaqueField:
    """marker base for opaque field payloads (row tags, placeholder strings)"""


def rec_empty(n, dtype):
    dtype = rnp.dtype(dtype)
    cols = {}
    for name in dtype.names:
        fdt = dtype[name]
        if fdt.kind == 'S' or fdt.kind == 'U':
            a = rnp.empty(n, dtype=object)
            a[...] = b'' if fdt.kind == 'S' else ''
            cols[name] = SArr(a, fdt)
        else:
            cols[name] = SArr(rnp.zeros(n, dtype=fdt), fdt)
    return SRec(cols, dtype)


# ---- masked arrays (numpy.ma as used by the binary / Brier tests) -------------------------------

class SMasked:
    """numpy.ma.MaskedArray restricted to what the anchored code uses. `.data` follows numpy.ma's
    *data* semantics (masked positions keep the first operand's data in binary operations)."""
    __array_ufunc__ = None

    def __init__(self, data, mask):
        self._data = data
        self.mask = mask

    @property
    def data(self): return self._data
    @property
    def shape(self): return self._data.shape
    @property
    def dtype(self): return self._data.dtype
    @property
    def ndim(self): return self._data.ndim
    @property
    def size(self): return self._data.size

    def __len__(self): return len(self._data)

    def ravel(self): return SMasked(self._data.ravel(), self.mask.ravel())

    def filled(self, v=None):
        if v is None:
            raise NotModelled('filled() with the default fill value')
        return where(self.mask, v, self._data)

    def cumsum(self, axis=None):
        return SMasked(cumsum(self.filled(0), axis=axis), self.mask.ravel() if axis is None else self.mask)

    def sum(self, axis=None):
        if axis is not None:
            raise NotModelled('masked sum with axis')
        return sum(self.filled(0))

    @staticmethod
    def binop(x, y, name):
        # numpy.ma: result.data = op(x.data, y.data) where not masked; masked positions keep x's data
        # (domained operations such as true_divide additionally mask invalid results; not needed here:
        #  divisors are sums of positive rates)
        xd = x._data if isinstance(x, SMasked) else x
        yd = y._data if isinstance(y, SMasked) else y
        xm = x.mask if isinstance(x, SMasked) else None
        ym = y.mask if isinstance(y, SMasked) else None
        m = xm if ym is None else (ym if xm is None else binop(xm, ym, 'or'))
        if name in _CMP:
            raise NotModelled('comparison of masked arrays')
        r = binop(xd, yd, name)
        first = xd if isinstance(xd, SArr) else (asarray(xd) + zeros(r.shape, dtype=r.dtype))
        if isinstance(first, SArr) and first.shape != r.shape:
            first = first + zeros(r.shape, dtype=r.dtype)
        r = where(m, first, r)
        return SMasked(r, m if m.shape == r.shape else (m | zeros(r.shape, dtype=bool)))

    def __add__(self, o): return SMasked.binop(self, o, 'add')
    def __radd__(self, o): return SMasked.binop(o, self, 'add')
    def __sub__(self, o): return SMasked.binop(self, o, 'sub')
    def __rsub__(self, o): return SMasked.binop(o, self, 'sub')
    def __mul__(self, o): return SMasked.binop(self, o, 'mul')
    def __rmul__(self, o): return SMasked.binop(o, self, 'mul')
    def __truediv__(self, o): return SMasked.binop(self, o, 'truediv')
    def __neg__(self):
        # numpy.ma unary operation: computed on the data, masked positions keep the input data
        return SMasked(where(self.mask, self._data, -self._data), self.mask)

    def unary(self, f, domain=None):
        """numpy.ma unary ufunc: result.data = f(data) where valid, input data where masked; a domained function
        (log: x <= 0) additionally masks the positions outside its domain"""
        d = self._data
        m = self.mask
        if domain is not None:
            m = m | domain(d)
        r = f(d)
        return SMasked(where(m, d, r), m)

    def __getattr__(self, name):
        if name.startswith('__'):
            raise AttributeError(name)
        getattr(rnp.ma.MaskedArray, name)
        raise NotModelled('MaskedArray.%s' % name)


class _MA:
    @staticmethod
    def masked_where(cond, a, copy=True):
        a = asarray(a)
        cond = asarray(cond)
        if cond.shape != a.shape:
            raise IndexError('Inconsistent shape between the condition and the input')
        return SMasked(a.copy() if copy else a, cond)

    MaskedArray = SMasked

    @staticmethod
    def filled(a, fill_value=None):
        if isinstance(a, SMasked):
            return a.filled(fill_value)
        if all_concrete(a, fill_value):
            return delegate(rnp.ma.filled, a, fill_value)
        return asarray(a)

    @staticmethod
    def getdata(a):
        return a.data if isinstance(a, SMasked) else asarray(a)

    def __getattr__(self, name):
        real = getattr(rnp.ma, name)
        def f(*args, **kw):
            try:
                return delegate(real, *args, **kw)
            except _Symbolic:
                raise NotModelled('numpy.ma.%s on symbolic input' % name)
        return f if callable(real) and not isinstance(real, type) else real


ma = _MA()


# ---- file readers (environment stub: a registered path yields the matrix the file denotes) -------

VMATRIX = {}


def loadtxt(fname, *a, **k):
    if isinstance(fname, str) and fname in VMATRIX:
        m = VMATRIX[fname]
        return m.copy() if isinstance(m, (SArr, SRec)) else asarray(m)
    return delegate(rnp.loadtxt, fname, *a, **k)


def genfromtxt(fname, *a, **k):
    if isinstance(fname, str) and fname in VMATRIX:
        m = VMATRIX[fname]
        return m.copy() if isinstance(m, (SArr, SRec, Rec0d)) else asarray(m)
    return delegate(rnp.genfromtxt, fname, *a, **k)


# ---- constructors -------------------------------------------------------------------------------

def finfo(dt):
    return rnp.finfo(_model_dtype(dt))


def iinfo(dt):
    return rnp.iinfo(_model_dtype(dt))


def _model_dtype(dt):
    if dt is None:
        return None
    dt = getattr(dt, '_py', dt)
    if dt is builtins.float:
        return DT64
    if dt is builtins.int:
        return DTI
    if dt is builtins.bool:
        return DTB
    return rnp.dtype(dt)


def asarray(x, dtype=None, **kw):
    dtype = _model_dtype(dtype)
    if isinstance(x, SArr):
        if dtype is None or dtype == x.dt:
            return x
        return x.astype(dtype)
    if isinstance(x, (SRec, SMasked)):
        return x
    if isinstance(x, LazyIdx):
        r = x.materialise()
        return r if dtype is None else r.astype(dtype)
    if is_sym(x):
        a = rnp.empty((), dtype=object)
        a[()] = x
        r = SArr(a, x.dtype)
        return r if dtype is None else r.astype(dtype)
    try:
        ux = unwrap(x)
    except _Symbolic:
        return _array_from_nested(x, dtype)
    if dtype is not None and rnp.dtype(dtype).names:
        return wrap(rnp.asarray(ux, dtype=dtype))
    return wrap(rnp.asarray(ux, dtype=dtype, **kw))


def _array_from_nested(x, dtype):
    """list/tuple structure containing symbolic scalars or SArr -> SArr"""
    def conv(e):
        if isinstance(e, SArr):
            return e.a.tolist() if e.a.dtype == object else e.a.astype(object).tolist()
        if isinstance(e, (list, tuple)):
            return [conv(v) for v in e]
        if isinstance(e, NonzeroIdx):
            return conv(list(e.materialise()))
        return _norm_elem(e)
    nested = conv(x)
    shape = _shape_of(nested)
    a = rnp.empty(shape, dtype=object)
    _fill_nested(a, nested, ())
    dts = []
    for e in a.flat:
        dts.append(e.dtype if is_sym(e) else e)
    rdt = rnp.result_type(*dts) if dts else DT64
    r = mk(a, rdt)
    if rdt.kind == 'f':
        r = SArr(_precast(r.a, rdt), rdt) if r.a.dtype == object else r
    return r if dtype is None else r.astype(dtype)


def _shape_of(n):
    if isinstance(n, list):
        if not n:
            return (0,)
        return (len(n),) + _shape_of(n[0])
    return ()


def _fill_nested(a, n, pos):
    if isinstance(n, list):
        for i, v in enumerate(n):
            _fill_nested(a, v, pos + (i,))
    else:
        a[pos] = n


def array(x, dtype=None, copy=True, **kw):
    r = asarray(x, dtype=dtype)
    if r is x and isinstance(r, (SArr, SRec)):
        return r.copy()
    return r


asanyarray = asarray


def isscalar(x):
    if is_sym(x):
        return True
    if isinstance(x, (SArr, SRec)):
        return False
    return rnp.isscalar(x)


def bincount(x, weights=None, minlength=0):
    """number of occurrences of each value 0..minlength-1 (symbolic input: the length must be fixed by minlength)"""
    if all_concrete(x, weights):
        return delegate(rnp.bincount, x, weights=weights, minlength=minlength)
    if weights is not None:
        raise NotModelled('bincount with weights')
    xa = asarray(x).ravel()
    n = operator.index(minlength)
    els = list(xa.a.reshape(-1))
    for e in els:
        if core.is_sym(e):
            if core.decide((e < 0).t):
                raise ValueError("'list' argument must have no negative elements")
            core.lazy_assert((e < n).t, 'bincount value within minlength (a larger value would grow the result)')
        elif e < 0:
            raise ValueError("'list' argument must have no negative elements")
    out = []
    for k in range(n):
        tot = 0
        for e in els:
            tot = tot + core._as_num(e == k) if core.is_sym(e) else tot + (1 if e == k else 0)
        out.append(tot)
    return asarray(out, dtype=DTI) if out else zeros(0, dtype=DTI)


def isclose(a, b, rtol=1e-05, atol=1e-08, equal_nan=False):
    """|a - b| <= atol + rtol * |b| for finite values; equal infinities are close"""
    if all_concrete(a, b):
        return delegate(rnp.isclose, a, b, rtol=rtol, atol=atol, equal_nan=equal_nan)
    a, b = asarray(a), asarray(b)
    near = absolute(a - b) <= (atol + rtol * absolute(b))
    return logical_or(a == b, logical_and(logical_and(isfinite(a), isfinite(b)), near))


def atleast_1d(x):
    if isinstance(x, Rec0d):
        return x._rec
    if isinstance(x, SRec):
        return x
    a = asarray(x)
    return a if a.ndim >= 1 else a.reshape(1)


def ascontiguousarray(x, dtype=None):
    return asarray(x, dtype=dtype)


def copy(x, **kw):
    if isinstance(x, (SArr, SRec)):
        return x.copy()
    return array(x)


def _shape(s):
    if isinstance(s, (tuple, list)):
        return tuple(operator.index(e) for e in s)
    if isinstance(s, SArr):
        return tuple(operator.index(e) for e in s.tolist())
    return operator.index(s)


def zeros(shape, dtype=float, **kw):
    dt = _model_dtype(dtype)
    if dt.names:
        return rec_empty(_shape(shape), dt)
    return mk(rnp.zeros(_shape(shape), dtype=dt))


def ones(shape, dtype=float, **kw):
    return mk(rnp.ones(_shape(shape), dtype=_model_dtype(dtype)))


def empty(shape, dtype=float, **kw):
    dt = _model_dtype(dtype)
    if dt.names:
        return rec_empty(_shape(shape), dt)
    return mk(rnp.zeros(_shape(shape), dtype=dt))     # deterministic stand-in for uninitialised memory


def full(shape, v, dtype=None):
    if is_sym(v):
        a = rnp.empty(_shape(shape), dtype=object)
        a[...] = v
        return mk(a, v.dtype if dtype is None else _model_dtype(dtype))
    return mk(rnp.full(_shape(shape), v, dtype=_model_dtype(dtype)))


def zeros_like(x, dtype=None):
    x = asarray(x)
    return zeros(x.shape, dtype=dtype or x.dt)


def ones_like(x, dtype=None):
    x = asarray(x)
    return ones(x.shape, dtype=dtype or x.dt)


# ---- elementwise math ---------------------------------------------------------------------------



def absolute(x): return unop(x, builtins.abs, rnp.abs)
abs = absolute


def floor(x): return unop(x, lambda e: e.floor() if isinstance(e, (SFP, XR)) else e, rnp.floor)
def ceil(x): return unop(x, lambda e: e.ceil(), rnp.ceil)
def rint(x): return unop(x, lambda e: e.rint(), rnp.rint)
def sqrt(x):
    if core.OPT['symbolic_transc'] and core.MODE['float'] == 'xr':
        if isinstance(x, (SArr, rnp.ndarray, list, tuple)):
            x = asarray(x)
            r = _frompy(lambda e: core.R(e).sqrt(), 1, 1)(_obj(x))
            return mk(r, DT64) if isinstance(r, rnp.ndarray) else r
        return core.R(x).sqrt()
    return unop(x, lambda e: _fl(e).sqrt(), rnp.sqrt, DT64)
def square(x): return binop(x, x, 'mul')
def negative(x): return unop(x, operator.neg, rnp.negative)


def _fl(e):
    if isinstance(e, (SInt, SBool)):
        return core.R(e) if core.MODE['float'] == 'xr' else core.to_fp(e)
    if isinstance(e, SBV):
        return e._f()
    return e


def _transc(name):
    def sym(e):
        e = _fl(e)
        if isinstance(e, XR):
            return {'log': core.xlog, 'log10': lambda a: core.xlog(a, 'log10'), 'log2': lambda a: core.xlog(a, 'log2'),
                    'exp': core.xexp, 'cos': lambda a: core.xuf('cos', a), 'sin': lambda a: core.xuf('sin', a)}[name](e)
        if isinstance(e, SFP):
            # bit-exact mode: transcendental functions are uninterpreted functions on doubles (their values never
            # enter a claim decided in this mode)
            f = z3.Function('fp_' + name, core.F64, core.F64)
            return SFP(f(core.cast(e, DT64).t), DT64)
        raise NotModelled('numpy.%s on %r' % (name, type(e)))
    real = getattr(rnp, name)
    def f(x, **kw):
        if all_concrete(x) and not (core.OPT['symbolic_transc'] and core.MODE['float'] == 'xr'):
            return wrap(real(unwrap(x)))
        if isinstance(x, SMasked):
            dom = (lambda d: d <= 0) if name.startswith('log') else None
            return x.unary(f, dom)
        if core.MODE['float'] == 'xr':
            # concrete elements inside a symbolic array are lifted too, so that log(2) is the same UF term
            x = asarray(x)
            r = _frompy(lambda e: sym(core.R(e) if not is_sym(e) else e), 1, 1)(_obj(x))
            return mk(r, DT64) if isinstance(r, rnp.ndarray) else r
        return unop(x, sym, real, DT64)
    return f


cos = _transc('cos')
sin = _transc('sin')
log = _transc('log')
log10 = _transc('log10')
log2 = _transc('log2')
exp = _transc('exp')


def power(x, p):
    if all_concrete(x, p):
        return delegate(rnp.power, x, p)
    if isinstance(p, (int, rnp.integer)) and int(p) == 2:
        return binop(x, x, 'mul')
    raise NotModelled('numpy.power with exponent %r' % (p,))


def around(x, decimals=0):
    if all_concrete(x, decimals):
        return delegate(rnp.round, x, decimals)
    if decimals != 0:
        raise NotModelled('round with decimals')
    return unop(x, lambda e: e.rint() if isinstance(e, SFP) else e, rnp.round)


round = around
round_ = around


def isnan(x):
    return unop(x, lambda e: e.isnan() if isinstance(e, (SFP, XR)) else False, rnp.isnan, DTB)


def isinf(x):
    return unop(x, lambda e: e.isinf() if isinstance(e, (SFP, XR)) else False, rnp.isinf, DTB)


def isfinite(x):
    return unop(x, lambda e: ~(e.isnan() | e.isinf()) if isinstance(e, (SFP, XR)) else True, rnp.isfinite, DTB)


def add(x, y): return binop(x, y, 'add')
def subtract(x, y): return binop(x, y, 'sub')
def multiply(x, y): return binop(x, y, 'mul')
def divide(x, y): return binop(x, y, 'truediv')
true_divide = divide
def less(x, y): return binop(x, y, 'lt')
def less_equal(x, y): return binop(x, y, 'le')
def greater(x, y): return binop(x, y, 'gt')
def greater_equal(x, y): return binop(x, y, 'ge')
def equal(x, y): return binop(x, y, 'eq')
def not_equal(x, y): return binop(x, y, 'ne')
def logical_and(x, y): return binop(asarray(x).astype(bool) if not is_sym(x) else ne0(x), asarray(y).astype(bool) if not is_sym(y) else ne0(y), 'and')
def logical_or(x, y): return binop(asarray(x).astype(bool) if not is_sym(x) else ne0(x), asarray(y).astype(bool) if not is_sym(y) else ne0(y), 'or')
def logical_not(x): return ~(asarray(x).astype(bool))


class _AddUfunc:
    def __call__(self, x, y):
        return binop(x, y, 'add')

    @staticmethod
    def at(arr, idx, val):
        """numpy.add.at: unbuffered in-place add; repeated indices accumulate; negative indices wrap"""
        if all_concrete(arr, idx, val):
            rnp.add.at(arr.a, unwrap(idx), unwrap(val))
            return
        if not isinstance(arr, SArr):
            raise TypeError('add.at target must be an array')
        if isinstance(idx, tuple):
            # one index array per axis (N-d target): positions are visited in order, repeated positions accumulate
            if len(idx) != arr.a.ndim:
                raise NotModelled('add.at with a partial tuple index')
            ias = [asarray(i) for i in idx]
            for ia_ in ias:
                if ia_.dt.kind in 'fb':
                    raise IndexError('arrays used as indices must be of integer (or boolean) type')
            bshape = rnp.broadcast_shapes(*[ia_.a.shape for ia_ in ias])
            iobj = [rnp.broadcast_to(_obj(ia_), bshape) for ia_ in ias]
            dims = arr.a.shape
            cur = (arr.a if arr.a.dtype == object else arr.a.astype(object)).copy()
            vals = rnp.broadcast_to(_obj(val) if _is_arraylike(val) else rnp.asarray(_norm_elem(val), dtype=object), bshape)
            for pos in rnp.ndindex(*bshape):
                ii = [_norm_elem(io[pos]) for io in iobj]
                v = _norm_elem(vals[pos])
                conds = _index_conds(ii, dims)
                for cell in rnp.ndindex(*dims):
                    c = z3.simplify(z3.And([conds[d][cell[d]] for d in range(len(dims))]))
                    if z3.is_false(c):
                        continue
                    cur[cell] = (cur[cell] + v) if z3.is_true(c) else sel(c, cur[cell] + v, cur[cell])
            if arr.dt.kind == 'f':
                cur = _frompy(lambda e: _fl(e) if is_sym(e) else builtins.float(e), 1, 1)(cur) if cur.size else cur
            arr._set_all(cur)
            return
        ia = asarray(idx)
        if ia.dt.kind == 'f' or ia.dt.kind == 'b':
            raise IndexError('arrays used as indices must be of integer (or boolean) type')
        if arr.a.ndim != 1:
            raise NotModelled('add.at on N-d target')
        n = arr.a.shape[0]
        cur = (arr.a if arr.a.dtype == object else arr.a.astype(object)).copy()
        vals = rnp.broadcast_to(_obj(val) if _is_arraylike(val) else rnp.asarray(_norm_elem(val), dtype=object), ia.a.shape)
        for pos in rnp.ndindex(*ia.a.shape):
            i = _norm_elem(ia.a[pos])
            v = _norm_elem(vals[pos])
            if is_sym(i):
                conds = _index_conds([i], (n,))[0]
                for j in range(n):
                    cur[j] = sel(conds[j], cur[j] + v, cur[j])
            else:
                j0 = operator.index(i)
                if j0 < -n or j0 >= n:
                    raise IndexError('index %d is out of bounds for axis 0 with size %d' % (j0, n))
                cur[j0 % n] = cur[j0 % n] + v
        if arr.dt.kind == 'f':
            cur = _frompy(lambda e: _fl(e) if is_sym(e) else builtins.float(e), 1, 1)(cur) if cur.size else cur
        arr._set_all(cur)


add = _AddUfunc()


# ---- reductions ---------------------------------------------------------------------------------

def _fp_pairwise(xs):
    """numpy's pairwise summation of a 1-D float sequence (n <= 128: 8 accumulators; else recursive)"""
    n = len(xs)
    if n < 8:
        acc = xs[0]
        for v in xs[1:]:
            acc = acc + v
        return acc
    if n <= 128:
        r = list(xs[:8])
        i = 8
        while i < n - (n % 8):
            for j in range(8):
                r[j] = r[j] + xs[i + j]
            i += 8
        res = ((r[0] + r[1]) + (r[2] + r[3])) + ((r[4] + r[5]) + (r[6] + r[7]))
        while i < n:
            res = res + xs[i]
            i += 1
        return res
    n2 = n // 2
    n2 -= n2 % 8
    return _fp_pairwise(xs[:n2]) + _fp_pairwise(xs[n2:])


def _sum_list(xs, dt):
    if not xs:
        return rnp.zeros((), dtype=dt)[()]
    if dt.kind == 'f' and builtins.any(isinstance(e, SFP) for e in xs):
        xs = [core.to_fp(e, dt) if not isinstance(e, SFP) else e for e in xs]
        return _fp_pairwise(xs)
    acc = xs[0]
    for v in xs[1:]:
        acc = acc + v
    return acc


def _reduce(x, axis, f, rdt=None):
    """apply list-reduction f along axis (None = all, C order)"""
    a = _obj(x)
    if axis is None:
        return f([_norm_elem(e) for e in a.reshape(-1)])
    axis = operator.index(axis)
    moved = rnp.moveaxis(a, axis, -1)
    out = rnp.empty(moved.shape[:-1], dtype=object)
    for pos in rnp.ndindex(*moved.shape[:-1]):
        out[pos] = f([_norm_elem(e) for e in moved[pos]])
    if out.shape == ():
        return out[()]
    return mk(out, rdt or x.dt)


def sum(x, axis=None, **kw):
    if isinstance(x, SMasked):
        return x.sum(axis=axis)
    if all_concrete(x):
        return delegate(rnp.sum, x, axis=axis, **kw)
    x = asarray(x)
    dt = x.dt if x.dt.kind not in 'b' else DTI
    if x.dt.kind == 'b':
        x = x.astype(DTI)
    a = _obj(x)
    if axis is not None and x.a.ndim > 1 and operator.index(axis) % x.a.ndim != x.a.ndim - 1 and dt.kind == 'f':
        # reduction over a non-contiguous axis adds slice by slice (sequential per output element)
        def seq(xs):
            acc = xs[0]
            for v in xs[1:]:
                acc = acc + v
            return acc
        return _reduce(x, axis, seq, dt)
    return _reduce(x, axis, lambda xs: _sum_list(xs, dt), dt)


def cumsum(x, axis=None):
    if isinstance(x, SMasked):
        return x.cumsum(axis=axis)
    if all_concrete(x):
        return delegate(rnp.cumsum, x, axis=axis)
    x = asarray(x)
    if axis is not None and x.a.ndim > 1:
        raise NotModelled('cumsum along an axis of an N-d symbolic array')
    flat = [_norm_elem(e) for e in _obj(x).reshape(-1)]
    out = rnp.empty(len(flat), dtype=object)
    acc = None
    for i, v in enumerate(flat):
        acc = v if acc is None else acc + v
        out[i] = acc
    return mk(out, x.dt if x.dt.kind != 'b' else DTI)


def _minmax(xs, pick_less):
    acc = xs[0]
    for v in xs[1:]:
        c = (v < acc) if pick_less else (v > acc)
        # numpy propagates NaN in min/max; harnesses exclude NaN by assumption
        acc = sel(c, v, acc) if is_sym(c) else (v if c else acc)
    return acc


def amin(x, axis=None, **kw):
    if all_concrete(x):
        return delegate(rnp.min, x, axis=axis, **kw)
    x = asarray(x)
    if x.size == 0:
        raise ValueError('zero-size array to reduction operation minimum which has no identity')
    return _reduce(x, axis, lambda xs: _minmax(xs, True))


def amax(x, axis=None, **kw):
    if all_concrete(x):
        return delegate(rnp.max, x, axis=axis, **kw)
    x = asarray(x)
    if x.size == 0:
        raise ValueError('zero-size array to reduction operation maximum which has no identity')
    return _reduce(x, axis, lambda xs: _minmax(xs, False))


min = amin
max = amax


def mean(x, axis=None, **kw):
    if all_concrete(x):
        return delegate(rnp.mean, x, axis=axis, **kw)
    x = asarray(x)
    n = x.size if axis is None else x.shape[axis]
    return sum(x, axis=axis) / n


def any(x, axis=None, **kw):
    if all_concrete(x):
        return delegate(rnp.any, x, axis=axis, **kw)
    x = asarray(x)
    def f(xs):
        acc = False
        for v in xs:
            acc = ne0(v) | acc
        return acc
    return _reduce(x, axis, f, DTB)


def all(x, axis=None, **kw):
    if all_concrete(x):
        return delegate(rnp.all, x, axis=axis, **kw)
    x = asarray(x)
    def f(xs):
        acc = True
        for v in xs:
            acc = ne0(v) & acc
        return acc
    return _reduce(x, axis, f, DTB)


def count_nonzero(x, axis=None):
    if all_concrete(x):
        return delegate(rnp.count_nonzero, x, axis=axis)
    x = asarray(x)
    return sum(x != 0, axis=axis)


def argmin(x, axis=None, **kw):
    if all_concrete(x):
        return delegate(rnp.argmin, x, axis=axis, **kw)
    return _argext(x, axis, True)


def argmax(x, axis=None, **kw):
    if all_concrete(x):
        return delegate(rnp.argmax, x, axis=axis, **kw)
    return _argext(x, axis, False)


def _argext(x, axis, less):
    x = asarray(x)
    if axis is not None and x.a.ndim > 1:
        raise NotModelled('argmin/argmax along an axis of a symbolic array')
    flat = [_norm_elem(e) for e in _obj(x).reshape(-1)]
    best = 0
    for i in range(1, len(flat)):
        c = (flat[i] < flat[best]) if less else (flat[i] > flat[best])
        if bool(c):       # forks
            best = i
    return best


def dot(a, b):
    if all_concrete(a, b):
        return delegate(rnp.dot, a, b)
    a, b = asarray(a), asarray(b)
    if a.ndim != 1 or b.ndim != 1:
        raise NotModelled('dot of N-d symbolic arrays')
    return sum(a * b)


def diff(x, n=1, axis=-1):
    if all_concrete(x):
        return delegate(rnp.diff, x, n=n, axis=axis)
    x = asarray(x)
    if x.ndim != 1 or n != 1:
        raise NotModelled('diff')
    return x[1:] - x[:-1]


# ---- selection / search -------------------------------------------------------------------------

def where(c, *args):
    if all_concrete(c, *args):
        return delegate(rnp.where, c, *args)
    if not args:
        c = asarray(c)
        if c.dt.kind != 'b':
            c = c != 0
        return NonzeroIdx(c)
    a, b = args
    c = asarray(c)
    if c.dt.kind != 'b':
        c = c != 0
    rdt = rnp.result_type(_dt_of(a), _dt_of(b))
    oa, ob = _precast(_obj(a), rdt), _precast(_obj(b), rdt)
    r = _frompy(lambda cc, x, y: sel(cc, _norm_elem(x), _norm_elem(y)), 3, 1)(_oa(_obj(c)), _oa(oa), _oa(ob))
    if not isinstance(r, rnp.ndarray):
        return r
    return mk(r, rdt)


def nonzero(x):
    if all_concrete(x):
        return delegate(rnp.nonzero, x)
    x = asarray(x)
    m = (x != 0).concretise_mask() if x.dt.kind != 'b' else x.concretise_mask()
    return tuple(mk(i) for i in rnp.nonzero(m))


def argwhere(x):
    if all_concrete(x):
        return delegate(rnp.argwhere, x)
    x = asarray(x)
    m = (x != 0).concretise_mask() if x.dt.kind != 'b' else x.concretise_mask()
    return mk(rnp.argwhere(m))


def flatnonzero(x):
    return nonzero(asarray(x).ravel())[0]


def compress(cond, a, axis=None):
    if all_concrete(cond, a):
        return delegate(rnp.compress, cond, a, axis=axis)
    a = asarray(a)
    cond = asarray(cond)
    if a.ndim != 1:
        raise NotModelled('compress on N-d symbolic array')
    m = cond.concretise_mask()
    return a[m[:len(a)]] if len(m) <= len(a) else a[m]


def searchsorted(a, v, side='left', sorter=None):
    """number of elements of `a` that are < v (left) or <= v (right). Equal to numpy's binary search
    when `a` is sorted; for unsorted input numpy's bisection is followed literally (see _bisect)."""
    if all_concrete(a, v):
        return delegate(rnp.searchsorted, a, v, side=side, sorter=sorter)
    if sorter is not None:
        raise NotModelled('searchsorted with sorter')
    if isinstance(a, SMasked):
        a = a.data            # ndarray.searchsorted on a MaskedArray sees the raw data
    a = asarray(a)
    if a.ndim != 1:
        raise ValueError('object too deep for desired array')
    va = asarray(v)
    cdt = rnp.result_type(a.dt, va.dt)
    elems = [_norm_elem(e) for e in _precast(_obj(a), cdt)]
    def one(x):
        x = _precast(_norm_elem(x), cdt)
        return _bisect(elems, x, side)
    if va.a.ndim == 0:
        return one(va.a[()])
    out = rnp.empty(va.a.shape, dtype=object)
    ov = _obj(va)
    for pos in rnp.ndindex(*va.a.shape):
        out[pos] = one(ov[pos])
    return mk(out, DTI)


def _intc(v):
    return SBV(v) if core.MODE['float'] == 'fp' else SInt(v)


def _bisect(elems, x, side):
    """numpy's binsearch: lo=0, hi=n; while lo<hi: mid = lo + (hi-lo)//2; if cmp(a[mid], x): lo=mid+1 else hi=mid.
    Encoded as a decision tree of ite terms (depth log2 n), so the result is exact for unsorted data too."""
    n = len(elems)
    def rec(lo, hi):
        if lo >= hi:
            return lo
        mid = lo + ((hi - lo) >> 1)
        c = (elems[mid] < x) if side == 'left' else (elems[mid] <= x)
        if not is_sym(c):
            return rec(mid + 1, hi) if c else rec(lo, mid)
        t = rec(mid + 1, hi)
        f = rec(lo, mid)
        return sel(c.t, t if is_sym(t) else _intc(t), f if is_sym(f) else _intc(f))
    return rec(0, n)


def sort(x, axis=-1, kind=None, **kw):
    if all_concrete(x):
        return delegate(rnp.sort, x, axis=axis, **kw)
    x = asarray(x)
    if x.ndim != 1:
        raise NotModelled('sort of N-d symbolic array')
    xs = [_norm_elem(e) for e in _obj(x)]
    n = len(xs)
    # odd-even transposition network of ite terms: no forks, every tie pattern covered at once
    for rnd in range(n):
        for i in range(rnd % 2, n - 1, 2):
            c = xs[i + 1] < xs[i]
            lo = sel(c, xs[i + 1], xs[i]) if is_sym(c) else (xs[i + 1] if c else xs[i])
            hi = sel(c, xs[i], xs[i + 1]) if is_sym(c) else (xs[i] if c else xs[i + 1])
            xs[i], xs[i + 1] = lo, hi
    out = rnp.empty(n, dtype=object)
    for i, v in enumerate(xs):
        out[i] = v
    return mk(out, x.dt)


def unique(x, return_index=False, return_inverse=False, return_counts=False, axis=None, **kw):
    if all_concrete(x):
        return delegate(rnp.unique, x, return_index=return_index, return_inverse=return_inverse,
                        return_counts=return_counts, axis=axis, **kw)
    x = asarray(x)
    if axis is not None or return_index or return_inverse or x.ndim != 1:
        raise NotModelled('unique variant on symbolic array')
    s = sort(x)
    xs = [s[i] for i in range(len(s))]
    vals, counts = [], []
    for v in xs:
        if vals and bool(v == vals[-1]):       # forks on ties
            counts[-1] += 1
        else:
            vals.append(v)
            counts.append(1)
    r = asarray(vals) if vals else zeros(0, dtype=x.dt)
    if return_counts:
        return r, mk(rnp.array(counts, dtype=rnp.int64))
    return r


def histogram(a, bins=10, **kw):
    """restated over comparisons: bins [e_i, e_{i+1}) with the last bin closed"""
    if all_concrete(a, bins):
        return delegate(rnp.histogram, a, bins=bins, **kw)
    if kw:
        raise NotModelled('histogram options')
    a = asarray(a).ravel()
    e = asarray(bins)
    ne = len(e)
    counts = []
    for i in range(ne - 1):
        lo, hi = e[i], e[i + 1]
        inb = (a >= lo) & ((a < hi) if i < ne - 2 else (a <= hi))
        counts.append(sum(inb))
    return asarray(counts, dtype=DTI) if counts else zeros(0, dtype=DTI), e


def append(arr, values, axis=None):
    if all_concrete(arr, values):
        return delegate(rnp.append, arr, values, axis=axis)
    if axis is not None:
        raise NotModelled('append with axis')
    return concatenate([asarray(arr).ravel(), asarray(values).ravel()])


def concatenate(seq, axis=0, **kw):
    if all_concrete(seq):
        return delegate(rnp.concatenate, seq, axis=axis, **kw)
    parts = [asarray(s) for s in seq]
    rdt = rnp.result_type(*[p.dt for p in parts])
    return mk(rnp.concatenate([_precast(_obj(p), rdt) for p in parts], axis=axis), rdt)


def column_stack(seq):
    if all_concrete(seq):
        return delegate(rnp.column_stack, seq)
    parts = [asarray(s) for s in seq]
    rdt = rnp.result_type(*[p.dt for p in parts])
    return mk(rnp.column_stack([_obj(p) for p in parts]), rdt)


def stack(seq, axis=0):
    if all_concrete(seq):
        return delegate(rnp.stack, seq, axis=axis)
    parts = [asarray(s) for s in seq]
    rdt = rnp.result_type(*[p.dt for p in parts])
    return mk(rnp.stack([_obj(p) for p in parts], axis=axis), rdt)


def size(x, axis=None):
    x = asarray(x)
    return x.size if axis is None else x.shape[axis]


def shape(x):
    return asarray(x).shape


def ndim(x):
    return asarray(x).ndim


def ravel(x, **k): return asarray(x).ravel(**k)
def reshape(x, shape, **k): return asarray(x).reshape(shape, **k)
def transpose(x, *a): return asarray(x).transpose(*a)
def squeeze(x, *a, **k): return asarray(x).squeeze(*a, **k)


def flip(x, axis=None):
    x = asarray(x)
    return SArr(rnp.flip(x.a, axis=axis), x.dt)


def maximum(a, b):
    if all_concrete(a, b):
        return delegate(rnp.maximum, a, b)
    return where(binop(a, b, 'gt'), a, b)


def minimum(a, b):
    if all_concrete(a, b):
        return delegate(rnp.minimum, a, b)
    return where(binop(a, b, 'lt'), a, b)


def array_equal(a, b, **kw):
    if all_concrete(a, b):
        return delegate(rnp.array_equal, a, b, **kw)
    a, b = asarray(a), asarray(b)
    if a.shape != b.shape:
        return False
    return all(a == b)


# ---- random (nondeterministic stub with a seed-indexed draw function) ----------------------------

class _Random:
    """numpy.random as an environment stub: every draw is a fresh variable recorded in the context;
    draws are a function of (last seed, draw index), so determinism in the seed is expressible."""

    def _rec(self):
        return core.CTX.notes.setdefault('random', {'seed_calls': [], 'draws': []})

    def seed(self, s=None):
        self._rec()['seed_calls'].append(s)

    def _fresh_unit(self, tag):
        rec = self._rec()
        k = len(rec['draws'])
        if k >= rec.get('max_draws', 64):
            raise core.Truncated('more than %d random draws' % k)
        if core.MODE['float'] == 'fp':
            t = z3.FP('rand!%d' % k, core.F64)
            v = SFP(t)
            core.CTX.pc.append(z3.And(z3.fpGEQ(t, core.fpconst(0.0)), z3.fpLT(t, core.fpconst(1.0))))
        else:
            t = z3.Real('rand!%d' % k)
            v = XR(t)
            core.CTX.pc.append(z3.And(t >= 0, t < 1))
        rec['draws'].append((tag, v))
        return v

    def rand(self, *shape):
        if not shape:
            return self._fresh_unit('rand')
        shape = tuple(operator.index(s) for s in shape)
        a = rnp.empty(shape, dtype=object)
        for pos in rnp.ndindex(*shape):
            a[pos] = self._fresh_unit('rand')
        return SArr(a, DT64)

    def uniform(self, low=0.0, high=1.0, size=None):
        if (low, high) != (0, 1) and (low, high) != (0.0, 1.0):
            raise NotModelled('uniform on another interval')
        if size is None:
            return self._fresh_unit('uniform')
        return self.rand(*(size if isinstance(size, tuple) else (size,)))

    def random(self, size=None):
        return self.uniform(size=size)

    def poisson(self, lam, size=None):
        if size is not None:
            raise NotModelled('poisson with size')
        rec = self._rec()
        k = len(rec['draws'])
        if core.MODE['float'] == 'fp':
            t = z3.BitVec('pois!%d' % k, 64)
            v = SBV(t)
            core.CTX.pc.append(z3.And(t >= 0, t <= rec.get('poisson_max', 3)))
        else:
            t = z3.Int('pois!%d' % k)
            v = SInt(t, dom=(0, rec.get('poisson_max', 3)))
            core.CTX.pc.append(z3.And(t >= 0, t <= rec.get('poisson_max', 3)))
        rec['draws'].append(('poisson', v))
        return v

    def choice(self, a, size=None, replace=True, p=None):
        """arbitrary elements of `a` that have positive probability"""
        a = asarray(a)
        n = len(a)
        size = operator.index(size) if size is not None else None
        rec = self._rec()
        outs = []
        for _ in range(size if size is not None else 1):
            k = len(rec['draws'])
            t = z3.Int('choice!%d' % k)
            i = SInt(t, dom=(0, n - 1))
            core.CTX.pc.append(z3.And(t >= 0, t < n))
            if p is not None:
                pa = asarray(p)
                pi = pa[i]
                core.CTX.pc.append((pi > 0).t)
            rec['draws'].append(('choice', i))
            outs.append(a[i])
        if size is None:
            return outs[0]
        return asarray(outs) if outs else zeros(0, dtype=a.dt)

    def __getattr__(self, name):
        getattr(rnp.random, name)
        raise NotModelled('numpy.random.%s' % name)


random = _Random()


# ---- pass-through of everything else (classes, constants; functions on concrete input) -----------

_real = rnp


def __getattr__(name):
    real = getattr(rnp, name)           # AttributeError if the installed numpy lacks it
    if isinstance(real, type) or not callable(real) or isinstance(real, types.ModuleType):
        return real
    if isinstance(real, rnp.ufunc):
        def uf_(*args, **kw):
            try:
                return delegate(real, *args, **kw)
            except _Symbolic:
                raise NotModelled('numpy.%s on symbolic input' % name)
        uf_.__name__ = name
        return uf_
    def fn(*args, **kw):
        try:
            return delegate(real, *args, **kw)
        except _Symbolic:
            raise NotModelled('numpy.%s on symbolic input' % name)
    fn.__name__ = name
    return fn
