"""File-level environment stubs: an in-memory file system whose files hold *fields*, not bytes (DESIGN 2.3).

Identity channel on well-formed fields: what is written as a row of fields is read back as the same fields
(csv: every field as text -- numbers via the repr/str contract; json: tuples become lists, non-JSON types go
through default=, NaN/Infinity pass). Text-level tokenisation is inside this contract and outside every claim.
"""
import io
import os as _ros

from . import core
from .core import is_sym


class VFile:
    def __init__(self, kind, payload=None):
        self.kind = kind            # 'rows' (csv) | 'json' | 'matrix' (loadtxt) | 'text'
        self.payload = payload
        self.mode = None


class _Handle:
    def __init__(self, vfs, path, vf, mode):
        self.vfs, self.path, self.vf, self.mode = vfs, path, vf, mode

    def __enter__(self):
        return self

    def __exit__(self, *a):
        return False

    def close(self):
        pass

    def write(self, s):
        self.vf.kind = 'text'
        self.vf.payload = (self.vf.payload or '') + s

    def read(self, *a):
        return self.vf.payload

    def __iter__(self):
        return iter(self.vf.payload or [])


class VFS:
    """path -> VFile; model `open`, `os.path`, `os.stat`"""

    def __init__(self):
        self.files = {}

    def put_rows(self, path, rows):
        self.files[path] = VFile('rows', [list(r) for r in rows])

    def open(self, path, mode='r', *a, **k):
        if not isinstance(path, str) or (path not in self.files and 'r' in mode and not mode.startswith(('w', 'a'))):
            if isinstance(path, str) and _ros.path.exists(path):
                return io.open(path, mode, *a, **k)         # real files of the repository (region artifacts ...)
            raise FileNotFoundError(2, 'No such file or directory', path)
        if mode.startswith('w') or path not in self.files:
            self.files[path] = VFile('rows', [])
        return _Handle(self, path, self.files[path], mode)


class CsvModel:
    """csv.reader / csv.writer / csv.DictWriter over VFS handles: rows of fields"""

    def __init__(self, to_text=None):
        self.to_text = to_text or (lambda v: v)

    def reader(self, handle, delimiter=',', **k):
        if not isinstance(handle, _Handle):
            import csv
            return csv.reader(handle, delimiter=delimiter, **k)
        return iter([list(r) for r in (handle.vf.payload or [])])

    def writer(self, handle, delimiter=',', **k):
        model = self

        class W:
            def writerow(self_, row):
                handle.vf.payload.append([model.to_text(v) for v in row])

            def writerows(self_, rows):
                for r in rows:
                    self_.writerow(r)
        return W()

    def DictWriter(self, handle, fieldnames, delimiter=',', **k):
        model = self

        class DW:
            def writeheader(self_):
                handle.vf.payload.append(list(fieldnames))

            def writerow(self_, d):
                extra = set(d) - set(fieldnames)
                if extra:
                    raise ValueError('dict contains fields not in fieldnames: %r' % sorted(extra))
                handle.vf.payload.append([model.to_text(d.get(f, '')) for f in fieldnames])

            def writerows(self_, rows):
                for r in rows:
                    self_.writerow(r)
        return DW()

    def __getattr__(self, k):
        import csv
        return getattr(csv, k)


class OsModel:
    """os with a VFS-aware path module"""

    def __init__(self, vfs):
        self._vfs = vfs
        outer = self

        class P:
            def isfile(self_, p): return p in vfs.files or _ros.path.isfile(p)
            def isdir(self_, p): return _ros.path.isdir(p) if p not in vfs.files else False
            def exists(self_, p): return p in vfs.files or _ros.path.exists(p)

            def __getattr__(self_, k):
                return getattr(_ros.path, k)
        self.path = P()

    def stat(self, p):
        if p in self._vfs.files:
            class S:
                st_size = 0 if not self._vfs.files[p].payload else 1
            return S()
        return _ros.stat(p)

    def __getattr__(self, k):
        return getattr(_ros, k)


# ---- JSON ----------------------------------------------------------------------------------------------------------

class StrOf(str):
    """the text str(obj) of an object json could not encode natively (default=str): an opaque string that remembers obj"""
    def __new__(cls, obj, text=None):
        o = str.__new__(cls, '<str of %s>' % type(obj).__name__ if text is None else text)
        o.of = obj
        return o


class JsonModel:
    """json.dump / json.load over VFS handles with the *type rules* of the real encoder (contract, conformance-tested in
    the harnesses against the real json module): dict keys must be str/int/float/bool/None (non-str keys become their
    text), list and tuple -> list, str -> str, bool/None unchanged, int -> int, float (numpy.float64 is a float) -> float
    with NaN/Infinity allowed, everything else (numpy integers and bools, ndarrays, datetimes, arbitrary objects) goes
    through `default` or raises TypeError. Symbolic scalars: XR/SFP/EFP are floats, SInt/SBV are Python ints; harness
    wrappers with attribute `json_kind` ('float' | 'int' | 'other') choose their own rule."""

    def __init__(self, vfs):
        self.vfs = vfs

    @staticmethod
    def _enc(o, default):
        import numpy as _np
        import json as _rj
        enc = JsonModel._enc
        kind = getattr(o, 'json_kind', None)
        if kind == 'other':
            if default is None:
                raise TypeError('Object of type %s is not JSON serializable' % type(o).__name__)
            return enc(default(o), default)
        if kind in ('float', 'int'):
            return o.json_value()
        if o is None or isinstance(o, (bool, str)):
            return o
        if isinstance(o, (core.XR, core.SFP, core.EFP, core.SInt, core.SBV)):
            return o
        if isinstance(o, float):
            return float(o)
        if isinstance(o, int):
            return int(o)
        if isinstance(o, (list, tuple)):
            return [enc(x, default) for x in o]
        if isinstance(o, dict):
            out = {}
            for k, v in o.items():
                if isinstance(k, str):
                    kk = k
                elif isinstance(k, bool) or k is None or isinstance(k, (int, float)):
                    kk = _rj.dumps(k)
                else:
                    raise TypeError('keys must be str, int, float, bool or None, not %s' % type(k).__name__)
                out[kk] = enc(v, default)
            return out
        if default is None:
            raise TypeError('Object of type %s is not JSON serializable' % type(o).__name__)
        d = default(o)
        if d is o:
            raise ValueError('Circular reference detected')
        return enc(d, default)

    @staticmethod
    def _dec(o):
        if isinstance(o, list):
            return [JsonModel._dec(x) for x in o]
        if isinstance(o, dict):
            return {k: JsonModel._dec(v) for k, v in o.items()}
        return o

    def dump(self, obj, fp, *, skipkeys=False, ensure_ascii=True, check_circular=True, allow_nan=True, cls=None, indent=None,
             separators=None, default=None, sort_keys=False, **kw):
        if not isinstance(fp, _Handle):
            import json
            return json.dump(obj, fp, indent=indent, separators=separators, default=default, sort_keys=sort_keys)
        payload = self._enc(obj, default)
        fp.vf.kind = 'json'
        fp.vf.payload = payload

    def load(self, fp, **kw):
        if not isinstance(fp, _Handle):
            import json
            return json.load(fp, **kw)
        if fp.vf.kind != 'json':
            import json
            raise json.JSONDecodeError('Expecting value', '', 0)
        return self._dec(fp.vf.payload)

    def dumps(self, obj, *, default=None, **kw):
        return _JsonText(self._enc(obj, default))

    def loads(self, s, **kw):
        if isinstance(s, _JsonText):
            return self._dec(s.payload)
        import json
        return json.loads(s, **kw)

    def __getattr__(self, k):
        import json
        return getattr(json, k)


class _JsonText(str):
    def __new__(cls, payload):
        o = str.__new__(cls, '<json text>')
        o.payload = payload
        return o
