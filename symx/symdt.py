"""Model of `datetime` and `calendar` (DESIGN 2.3).

An instant is an integer number of microseconds on the proleptic Gregorian calendar (wall clock of the object's
own time zone, counted from 1970-01-01T00:00:00). Integers may be Python ints, SInt or SBV; civil fields follow the
standard days<->civil algorithm (integer division by constants). Conversions that CPython performs in floating
point are followed step by step:
  timedelta.total_seconds()      correctly rounded  us / 10**6   (int / int true division)
  datetime.fromtimestamp(x, utc) _PyTime_DoubleToDenominator: modf, fractional part * 1e6 as a double product,
                                 round-half-even, carry into the seconds
  timedelta(microseconds=float)  round-half-even
Time strings: an ordinary `str` whose year field is >= 9000 is a *placeholder*; its instant is looked up in a
registry (symbolic), its syntax (separator, fraction, +00:00 suffix) is real text, so `'.' in s`, `s[-6]`,
`.replace(' ', 'T')` and a mismatching strptime format behave as for a real time string.
"""
import calendar as _rcal
import datetime as _rdt
import re

import z3

from . import core
from .core import SInt, SBV, SFP, EFP, XR, SBool, is_sym, NotModelled, sel

US = 10 ** 6
DAY_US = 86400 * US

_EPOCH_ORD = _rdt.date(1970, 1, 1).toordinal()


def _isint(x):
    return isinstance(x, (int, SInt, SBV)) and not isinstance(x, bool)


def _b(c):
    """python truth of a possibly symbolic comparison (forks)"""
    return bool(c)


def _ite(c, a, b):
    if isinstance(c, SBool):
        return sel(c.t, a, b)
    return a if c else b


def days_from_civil(y, m, d):
    y = y - _ite(m <= 2, 1, 0)
    era = y // 400
    yoe = y - era * 400
    mp = m + _ite(m > 2, -3, 9)
    doy = (153 * mp + 2) // 5 + d - 1
    doe = yoe * 365 + yoe // 4 - yoe // 100 + doy
    return era * 146097 + doe - 719468


def civil_from_days(z):
    z = z + 719468
    era = z // 146097
    doe = z - era * 146097
    yoe = (doe - doe // 1460 + doe // 36524 - doe // 146096) // 365
    y = yoe + era * 400
    doy = doe - (365 * yoe + yoe // 4 - yoe // 100)
    mp = (5 * doy + 2) // 153
    d = doy - (153 * mp + 2) // 5 + 1
    m = mp + _ite(mp < 10, 3, -9)
    y = y + _ite(m <= 2, 1, 0)
    return y, m, d


def _float_kind(x):
    return isinstance(x, (float, SFP, EFP, XR)) and not isinstance(x, bool)


def _round_half_even_to_int(x):
    """float -> int, round half to even (exact operation)"""
    if isinstance(x, float):
        return int(round(x))
    if isinstance(x, SFP):
        return core.cast(x.rint(), core.DTI)
    if isinstance(x, EFP):
        return SInt(z3.ToInt(x.rint().v))
    if isinstance(x, XR):
        return EFP(x.v).__round__()
    raise NotModelled('rounding of %r' % type(x))


def _trunc_parts(x):
    """modf: (fractional part, integral part) both as floats of x's kind; exact operations"""
    if isinstance(x, float):
        import math
        f, i = math.modf(x)
        return f, i
    if isinstance(x, SFP):
        i = x.trunc()
        return x - i, i          # x - trunc(x) is exact in IEEE arithmetic
    if isinstance(x, EFP):
        i = x.trunc()
        return EFP(x.v - i.v), i
    if isinstance(x, XR):
        # exact-real mode: floats are real numbers, every step of the conversion is exact
        i = EFP(x.v).trunc()
        return XR(x.v - i.v), XR(i.v)
    raise NotModelled('modf of %r' % type(x))


def _to_int(x):
    if isinstance(x, float):
        return int(x)
    if isinstance(x, SFP):
        return core.cast(x, core.DTI)
    if isinstance(x, EFP):
        return core.cast(x, core.DTI)
    if isinstance(x, XR):
        return core.cast(x, core.DTI)
    return x


class tzinfo:
    pass


class timezone(tzinfo):
    def __init__(self, offset=None, name=None):
        self._off = offset if offset is not None else timedelta(0)
        self._name = name

    def utcoffset(self, dt=None):
        return self._off

    def __str__(self):
        if self._name:
            return self._name
        us = self._off._us
        if not isinstance(us, int):
            raise NotModelled('name of a symbolic time zone')
        if us == 0:
            return 'UTC'
        sign = '-' if us < 0 else '+'
        us = abs(us)
        return 'UTC%s%02d:%02d' % (sign, us // 3600 // US, us // 60 // US % 60)

    __repr__ = __str__

    def tzname(self, dt=None):
        return str(self)

    def __eq__(self, o):
        return isinstance(o, timezone) and not is_sym(self._off._us) and not is_sym(o._off._us) and self._off._us == o._off._us

    def __hash__(self):
        return hash(('tz', self._off._us if isinstance(self._off._us, int) else 0))


class timedelta:
    __array_ufunc__ = None

    def __init__(self, days=0, seconds=0, microseconds=0, milliseconds=0, minutes=0, hours=0, weeks=0, _us=None):
        if _us is not None:
            self._us = _us
            return
        total = 0
        for val, factor in ((weeks, 7 * DAY_US), (days, DAY_US), (hours, 3600 * US), (minutes, 60 * US), (seconds, US),
                            (milliseconds, 1000), (microseconds, 1)):
            if isinstance(val, bool):
                val = int(val)
            if _isint(val):
                total = total + val * factor
            elif hasattr(val, 'dtype') and not is_sym(val) and getattr(val.dtype, 'kind', '') in 'iu':
                total = total + int(val) * factor
            elif _float_kind(val) or hasattr(val, 'dtype'):
                if hasattr(val, 'dtype') and not is_sym(val):
                    val = float(val)
                # CPython accum(): integral part exactly, fractional part * factor as a double, leftover rounded
                if factor == 1:
                    # integral part + leftover rounded half-even towards an even total == round-half-even(val)
                    total = total + _round_half_even_to_int(val)
                    continue
                frac, ip = _trunc_parts(val)
                total = total + _to_int(ip) * factor
                if False:
                    pass
                else:
                    prod = frac * float(factor)
                    total = total + _round_half_even_to_int(prod)
            else:
                raise TypeError('unsupported type for timedelta component: %r' % type(val))
        self._us = total

    # nested remainders (mathematically the same fields): recomposition stays a linear identity for the solver
    @property
    def days(self): return self._us // DAY_US
    @property
    def seconds(self): return (self._us % DAY_US) // US
    @property
    def microseconds(self): return (self._us % DAY_US) % US

    def total_seconds(self):
        us = self._us
        if isinstance(us, int):
            return us / 10 ** 6
        return us / 10 ** 6          # SInt/SBV true division: correctly rounded conversion + division

    def __add__(self, o):
        if isinstance(o, timedelta):
            return timedelta(_us=self._us + o._us)
        if isinstance(o, datetime):
            return o + self
        return NotImplemented
    __radd__ = __add__

    def __sub__(self, o):
        if isinstance(o, timedelta):
            return timedelta(_us=self._us - o._us)
        return NotImplemented

    def __neg__(self): return timedelta(_us=-self._us)
    def __mul__(self, k):
        if _isint(k):
            return timedelta(_us=self._us * k)
        return NotImplemented
    __rmul__ = __mul__

    def _cmp(self, o, f):
        if not isinstance(o, timedelta):
            return NotImplemented
        return f(self._us, o._us)

    def __eq__(self, o):
        r = self._cmp(o, lambda a, b: a == b)
        return False if r is NotImplemented else r
    def __lt__(self, o): return self._cmp(o, lambda a, b: a < b)
    def __le__(self, o): return self._cmp(o, lambda a, b: a <= b)
    def __gt__(self, o): return self._cmp(o, lambda a, b: a > b)
    def __ge__(self, o): return self._cmp(o, lambda a, b: a >= b)
    __hash__ = None

    def __repr__(self):
        return 'timedelta(us=%r)' % (self._us,)


timezone.utc = timezone(timedelta(0))

_PLACEHOLDER_RE = re.compile(r'^(9\d\d\d)-01-01[ T]00:00:00(\.000001)?([+-]\d\d:?\d\d)?$')


def registry():
    c = core.CTX
    if c is None:
        return _GLOBAL_REG
    return c.notes.setdefault('timestr', {})


_GLOBAL_REG = {}


def placeholder(us, sep=' ', frac=True, suffix=False, ident=None):
    """time string (ordinary str) standing for the wall-clock instant `us` with the given syntax; suffix: False (naive),
    True ('+00:00') or an explicit UTC-offset text such as '+0900'"""
    reg = registry()
    if ident is None:
        ident = 9000 + len(reg)
    reg[ident] = us
    sfx = suffix if isinstance(suffix, str) else ('+00:00' if suffix else '')
    return '%04d-01-01%s00:00:00%s%s' % (ident, sep, '.000001' if frac else '', sfx)


class datetime:
    __array_ufunc__ = None
    min = None
    max = None

    def __init__(self, year=None, month=None, day=None, hour=0, minute=0, second=0, microsecond=0, tzinfo=None, *,
                 fold=0, _us=None):
        self._fields = None
        if _us is not None:
            self._us = _us
            self._tz = tzinfo
            return
        fields = [year, month, day, hour, minute, second, microsecond]
        for i, f in enumerate(fields):
            if hasattr(f, 'dtype') and not is_sym(f):
                if getattr(f.dtype, 'kind', '') not in 'iu':
                    raise TypeError("'%s' object cannot be interpreted as an integer" % type(f).__name__)
                fields[i] = int(f)
            elif isinstance(f, float) or _float_kind(f):
                raise TypeError("'float' object cannot be interpreted as an integer")
            elif not _isint(f):
                if hasattr(f, '__index__'):
                    fields[i] = f.__index__()
                else:
                    raise TypeError("'%s' object cannot be interpreted as an integer" % type(f).__name__)
        year, month, day, hour, minute, second, microsecond = fields
        if all(isinstance(f, int) for f in fields):
            r = _rdt.datetime(year, month, day, hour, minute, second, microsecond)     # raises like the real one
            self._us = ((r.toordinal() - _EPOCH_ORD) * 86400 + hour * 3600 + minute * 60 + second) * US + microsecond
        else:
            def chk(c, msg):
                if not _b(c):
                    raise ValueError(msg)
            chk((year >= 1) & (year <= 9999) if is_sym(year) else (1 <= year <= 9999), 'year is out of range')
            chk((month >= 1) & (month <= 12) if is_sym(month) else (1 <= month <= 12), 'month must be in 1..12')
            dim = days_in_month(year, month)
            chk((day >= 1) & (day <= dim) if (is_sym(day) or is_sym(dim)) else (1 <= day <= dim), 'day is out of range for month')
            chk((hour >= 0) & (hour <= 23) if is_sym(hour) else (0 <= hour <= 23), 'hour must be in 0..23')
            chk((minute >= 0) & (minute <= 59) if is_sym(minute) else (0 <= minute <= 59), 'minute must be in 0..59')
            chk((second >= 0) & (second <= 59) if is_sym(second) else (0 <= second <= 59), 'second must be in 0..59')
            chk((microsecond >= 0) & (microsecond <= 999999) if is_sym(microsecond) else (0 <= microsecond <= 999999),
                'microsecond must be in 0..999999')
            days = days_from_civil(year, month, day)
            self._us = ((days * 86400) + hour * 3600 + minute * 60 + second) * US + microsecond
            self._fields = (year, month, day, hour, minute, second, microsecond)     # known civil fields: no inversion needed
        self._tz = tzinfo

    # -- construction helpers
    @classmethod
    def _from_real(cls, r):
        us = ((r.toordinal() - _EPOCH_ORD) * 86400 + r.hour * 3600 + r.minute * 60 + r.second) * US + r.microsecond
        tz = None
        if r.tzinfo is not None:
            off = r.utcoffset()
            tz = timezone.utc if off == _rdt.timedelta(0) else timezone(timedelta(_us=(off.days * 86400 + off.seconds) * US + off.microseconds))
        return cls(_us=us, tzinfo=tz)

    def _to_real(self):
        if is_sym(self._us):
            raise NotModelled('symbolic datetime passed to a real-library operation')
        r = _rdt.datetime(1970, 1, 1) + _rdt.timedelta(microseconds=self._us)
        if self._tz is not None:
            r = r.replace(tzinfo=_rdt.timezone(_rdt.timedelta(microseconds=self._tz._off._us)))
        return r

    @classmethod
    def fromtimestamp(cls, t, tz=None):
        if tz is None:
            raise NotModelled('fromtimestamp in the local time zone')
        if hasattr(t, 'dtype') and not is_sym(t):
            t = t.item()
        if isinstance(t, (int, float)) and not is_sym(t):
            return cls._from_real(_rdt.datetime.fromtimestamp(t, _rdt.timezone.utc)).astimezone(tz)
        if _isint(t):
            us = t * US
        else:
            # _PyTime_DoubleToDenominator(d, &sec, &numerator, 1e6, ROUND_HALF_EVEN)
            frac, ip = _trunc_parts(t)
            fp = frac * 1e6
            if isinstance(fp, XR):
                fr = EFP(fp.v).rint()
                sec = SInt(z3.ToInt(ip.v))
                num = SInt(z3.ToInt(fr.v))
                carry_up = fr >= 1e6
                carry_dn = fr < 0.0
            elif isinstance(fp, SFP):
                fr = fp.rint()
                sec = core.cast(ip, core.DTI)
                num = core.cast(fr, core.DTI)
                carry_up = fr >= 1e6
                carry_dn = fr < 0.0
            else:
                fr = fp.rint()
                sec = SInt(z3.ToInt(ip.v))
                num = SInt(z3.ToInt(fr.v))
                carry_up = fr >= 1e6
                carry_dn = fr < 0.0
            num = sel(carry_up.t, num - US, sel(carry_dn.t, num + US, num))
            sec = sel(carry_up.t, sec + 1, sel(carry_dn.t, sec - 1, sec))
            us = sec * US + num
        off = tz.utcoffset(None)._us
        return cls(_us=us + off, tzinfo=tz)

    @classmethod
    def utcfromtimestamp(cls, t):
        return cls.fromtimestamp(t, timezone.utc).replace(tzinfo=None)

    @classmethod
    def strptime(cls, s, fmt):
        if not isinstance(s, str):
            raise TypeError('strptime() argument 1 must be str, not %s' % type(s).__name__)
        r = _rdt.datetime.strptime(s, fmt)          # raises ValueError on a syntax mismatch exactly like the real one
        m = _PLACEHOLDER_RE.match(s)
        if m:
            ident = int(m.group(1))
            reg = registry()
            if ident not in reg:
                reg = _GLOBAL_REG            # placeholders created by a harness before the run started
            if ident in reg:
                tz = None
                if r.tzinfo is not None:
                    off = r.utcoffset()
                    tz = timezone.utc if off == _rdt.timedelta(0) else timezone(timedelta(_us=(off.days * 86400 + off.seconds) * US + off.microseconds))
                return cls(_us=reg[ident], tzinfo=tz)      # the registered instant is the wall-clock reading of the string
        return cls._from_real(r)

    @classmethod
    def now(cls, tz=None):
        return cls(_us=1_700_000_000 * US, tzinfo=tz)      # environment stub: a fixed instant

    @classmethod
    def utcnow(cls):
        return cls(_us=1_700_000_000 * US)

    @classmethod
    def fromisoformat(cls, s):
        return cls._from_real(_rdt.datetime.fromisoformat(s))

    # -- fields
    def _civil(self):
        if self._fields is not None:
            return self._fields[:3]
        days = self._us // DAY_US
        return civil_from_days(days)

    @property
    def year(self): return self._civil()[0]
    @property
    def month(self): return self._civil()[1]
    @property
    def day(self): return self._civil()[2]
    @property
    def hour(self):
        return self._fields[3] if self._fields is not None else (self._us % DAY_US) // (3600 * US)
    @property
    def minute(self):
        return self._fields[4] if self._fields is not None else ((self._us % DAY_US) % (3600 * US)) // (60 * US)
    @property
    def second(self):
        return self._fields[5] if self._fields is not None else (((self._us % DAY_US) % (3600 * US)) % (60 * US)) // US
    @property
    def microsecond(self):
        return self._fields[6] if self._fields is not None else (((self._us % DAY_US) % (3600 * US)) % (60 * US)) % US
    @property
    def tzinfo(self): return self._tz

    def utcoffset(self):
        return None if self._tz is None else self._tz.utcoffset(self)

    def replace(self, year=None, month=None, day=None, hour=None, minute=None, second=None, microsecond=None,
                tzinfo=True, **kw):
        if all(v is None for v in (year, month, day, hour, minute, second, microsecond)):
            r = type(self)(_us=self._us, tzinfo=self._tz if tzinfo is True else tzinfo)
            r._fields = self._fields
            return r
        y, mo, d = self._civil()
        return type(self)(year if year is not None else y, month if month is not None else mo,
                          day if day is not None else d, hour if hour is not None else self.hour,
                          minute if minute is not None else self.minute, second if second is not None else self.second,
                          microsecond if microsecond is not None else self.microsecond,
                          self._tz if tzinfo is True else tzinfo)

    def astimezone(self, tz=None):
        if tz is None:
            raise NotModelled('astimezone() to the local zone')
        if self._tz is None:
            raise NotModelled('astimezone() of a naive datetime (local zone)')
        return type(self)(_us=self._us - self._tz._off._us + tz._off._us, tzinfo=tz)

    def _utc_us(self):
        return self._us if self._tz is None else self._us - self._tz._off._us

    def timestamp(self):
        if self._tz is None:
            raise NotModelled('timestamp() of a naive datetime (local zone)')
        return timedelta(_us=self._utc_us()).total_seconds()

    def date(self):
        return self._to_real().date()

    def toordinal(self):
        return self._us // DAY_US + _EPOCH_ORD

    # -- arithmetic / comparison
    def __add__(self, o):
        if isinstance(o, timedelta):
            return type(self)(_us=self._us + o._us, tzinfo=self._tz)
        return NotImplemented
    __radd__ = __add__

    def __sub__(self, o):
        if isinstance(o, timedelta):
            return type(self)(_us=self._us - o._us, tzinfo=self._tz)
        if isinstance(o, datetime):
            if (self._tz is None) != (o._tz is None):
                raise TypeError("can't subtract offset-naive and offset-aware datetimes")
            return timedelta(_us=self._utc_us() - o._utc_us())
        if isinstance(o, _rdt.datetime):
            return self - datetime._from_real(o)
        return NotImplemented

    def _cmp(self, o, f):
        if isinstance(o, _rdt.datetime):
            o = datetime._from_real(o)
        if not isinstance(o, datetime):
            return NotImplemented
        if (self._tz is None) != (o._tz is None):
            raise TypeError("can't compare offset-naive and offset-aware datetimes")
        return f(self._utc_us(), o._utc_us())

    def __eq__(self, o):
        if isinstance(o, _rdt.datetime):
            o = datetime._from_real(o)
        if not isinstance(o, datetime):
            return False
        if (self._tz is None) != (o._tz is None):
            return False
        return self._utc_us() == o._utc_us()

    def __ne__(self, o):
        r = self.__eq__(o)
        return (not r) if isinstance(r, bool) else ~r

    def __lt__(self, o): return self._cmp(o, lambda a, b: a < b)
    def __le__(self, o): return self._cmp(o, lambda a, b: a <= b)
    def __gt__(self, o): return self._cmp(o, lambda a, b: a > b)
    def __ge__(self, o): return self._cmp(o, lambda a, b: a >= b)

    def __hash__(self):
        if is_sym(self._us):
            raise NotModelled('hash of a symbolic datetime')
        return hash(self._us)

    # -- text
    def __str__(self):
        if not is_sym(self._us):
            return str(self._to_real())
        frac = _b(self.microsecond != 0)          # CPython prints the fraction only when microsecond != 0
        return placeholder(self._us, ' ', frac, self._tz is not None)

    def isoformat(self, sep='T', timespec='auto'):
        if not is_sym(self._us):
            return self._to_real().isoformat(sep, timespec)
        frac = _b(self.microsecond != 0)
        return placeholder(self._us, sep, frac, self._tz is not None)

    def strftime(self, fmt):
        return self._to_real().strftime(fmt)

    def __repr__(self):
        return 'datetime(us=%r, tz=%r)' % (self._us, self._tz)


def is_leap(y):
    if isinstance(y, (float, SFP, EFP)) and not isinstance(y, bool):
        y = _to_int(y)
    if isinstance(y, int):
        return _rcal.isleap(y)
    return ((y % 4) == 0) & (((y % 100) != 0) | ((y % 400) == 0))


_MDAYS = [0, 31, 28, 31, 30, 31, 30, 31, 31, 30, 31, 30, 31]


def days_in_month(y, m):
    if isinstance(y, int) and isinstance(m, int):
        return _rcal.monthrange(y, m)[1]
    if is_sym(m):
        m = core.concretize(m, 1, 12)
    if m != 2:
        return _MDAYS[m]
    lp = is_leap(y)
    return _ite(lp, 29, 28)


class _Calendar:
    """model of the `calendar` module functions used by time_utils"""

    @staticmethod
    def isleap(y):
        return is_leap(y)

    @staticmethod
    def monthrange(y, m):
        if isinstance(y, int) and isinstance(m, int):
            return _rcal.monthrange(y, m)
        return (None, days_in_month(y, m))

    def __getattr__(self, k):
        return getattr(_rcal, k)


calendar = _Calendar()


class _DateMeta(type):
    def __instancecheck__(cls, x):
        return isinstance(x, _rdt.date) or type.__instancecheck__(cls, x)


class date(metaclass=_DateMeta):
    """datetime.date: the real class on concrete fields, a (year, month, day) triple with the proleptic-Gregorian day count when
    a field is symbolic"""
    def __new__(cls, year, month=None, day=None):
        if not (is_sym(year) or is_sym(month) or is_sym(day)):
            return _rdt.date(year, month, day)
        o = object.__new__(cls)
        o.year, o.month, o.day = year, month, day
        return o

    def toordinal(self):
        return days_from_civil(self.year, self.month, self.day) + _EPOCH_ORD

    @classmethod
    def today(cls):
        return _rdt.date.today()

    @classmethod
    def fromordinal(cls, n):
        return _rdt.date.fromordinal(n)


class _DatetimeModule:
    """what `import datetime` resolves to in the twin modules"""
    datetime = datetime
    timedelta = timedelta
    timezone = timezone
    tzinfo = tzinfo
    date = date
    time = _rdt.time
    MINYEAR = _rdt.MINYEAR
    MAXYEAR = _rdt.MAXYEAR
    UTC = timezone.utc
    __name__ = 'datetime'


module = _DatetimeModule()
