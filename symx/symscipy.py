"""Model of the scipy surface touched by the anchored code.

Distribution functions and special functions are *uninterpreted functions* on the finite reals
(contracts are added as axioms by the harnesses that need them, see DESIGN 2.3). Rank statistics are
re-stated over comparisons. API presence is proxied from the installed scipy: an attribute exists
here only if the real library has it.
"""
import types

import numpy as rnp
import scipy as rscipy
import scipy.stats
import scipy.special
import scipy.spatial
import scipy.interpolate
import z3

from . import core, symnp
from .core import XR, R, NotModelled, is_sym


def _ew(f, *args):
    """apply scalar function f elementwise over broadcast (possibly array) arguments"""
    arrs = [symnp._obj(a) if isinstance(a, (symnp.SArr, rnp.ndarray, list, tuple)) else a for a in args]
    if not any(isinstance(a, rnp.ndarray) for a in arrs):
        return f(*[symnp._norm_elem(a) for a in arrs])
    r = rnp.frompyfunc(lambda *e: f(*[symnp._norm_elem(v) for v in e]), len(arrs), 1)(*arrs)
    return symnp.mk(r, core.DT64) if isinstance(r, rnp.ndarray) else r


class _Proxy:
    """namespace whose unmodelled attributes fall through to the real object on concrete input"""

    def __init__(self, real, name):
        self._real = real
        self._name = name

    def __getattr__(self, k):
        if k.startswith('__'):
            raise AttributeError(k)
        real = getattr(self._real, k)      # AttributeError when the installed scipy lacks it
        if isinstance(real, types.ModuleType):
            return _Proxy(real, self._name + '.' + k)
        if isinstance(real, type) or not callable(real):
            if hasattr(real, 'cdf') or hasattr(real, 'ppf'):
                return _Proxy(real, self._name + '.' + k)
            return real
        def fn(*a, **kw):
            try:
                return symnp.delegate(real, *a, **kw)
            except symnp._Symbolic:
                raise NotModelled('%s.%s on symbolic input' % (self._name, k))
        fn.__name__ = k
        return fn


def _floor_int(x):
    x = R(x)
    if x.it is not None:
        return z3.ToReal(x.it)
    return z3.ToReal(z3.ToInt(x.v))


class _Poisson(_Proxy):
    def cdf(self, x, mu, **kw):
        if symnp.all_concrete(x, mu):
            return symnp.delegate(self._real.cdf, x, mu, **kw)
        f = core.uf('Fpois', 2)
        return _ew(lambda k, m: XR(f(_floor_int(k), R(m).v)), x, mu)


class _Frozen:
    """frozen distribution: dist(*params).cdf(x) is dist.cdf(x, *params)"""
    def __init__(self, dist, params, kw):
        self._dist, self._params, self._kw = dist, params, kw

    def cdf(self, x):
        return self._dist.cdf(x, *self._params, **self._kw)

    def ppf(self, q):
        return self._dist.ppf(q, *self._params, **self._kw)

    def sf(self, x):
        return self._dist.sf(x, *self._params, **self._kw)

    def __getattr__(self, k):
        raise NotModelled('frozen distribution method %s' % k)


def _freeze(self, *params, **kw):
    return _Frozen(self, params, kw)


class _NBinom(_Proxy):
    def cdf(self, x, n, p, loc=0):
        if symnp.all_concrete(x, n, p):
            return symnp.delegate(self._real.cdf, x, n, p, loc=loc)
        if loc != 0:
            raise NotModelled('nbinom.cdf with loc')
        f = core.uf('Fnb', 3)
        return _ew(lambda k, a, b: XR(f(_floor_int(k), R(a).v, R(b).v)), x, n, p)


class _StudentT(_Proxy):
    def ppf(self, q, df, **kw):
        if symnp.all_concrete(q, df):
            return symnp.delegate(self._real.ppf, q, df, **kw)
        f = core.uf('Tppf', 2)
        return _ew(lambda a, b: XR(f(R(a).v, R(b).v)), q, df)


class _Norm(_Proxy):
    def sf(self, z, **kw):
        if symnp.all_concrete(z):
            return symnp.delegate(self._real.sf, z, **kw)
        f = core.uf('Nsf', 1)
        return _ew(lambda a: XR(f(R(a).v)), z)


for _c in (_Poisson, _NBinom, _StudentT, _Norm):
    _c.__call__ = _freeze


class _Distributions(_Proxy):
    @property
    def norm(self):
        return _Norm(rscipy.stats.norm, 'scipy.stats.norm')


class _Stats(_Proxy):
    def __init__(self):
        super().__init__(rscipy.stats, 'scipy.stats')
        self.poisson = _Poisson(rscipy.stats.poisson, 'scipy.stats.poisson')
        self.nbinom = _NBinom(rscipy.stats.nbinom, 'scipy.stats.nbinom')
        self.t = _StudentT(rscipy.stats.t, 'scipy.stats.t')
        self.norm = _Norm(rscipy.stats.norm, 'scipy.stats.norm')
        self.distributions = _Distributions(rscipy.stats.distributions, 'scipy.stats.distributions')

    def rankdata(self, a, method='average', **kw):
        if symnp.all_concrete(a):
            return symnp.delegate(rscipy.stats.rankdata, a, method=method, **kw)
        if method != 'average' or kw:
            raise NotModelled('rankdata variant')
        a = symnp.asarray(a).ravel()
        xs = [a[i] for i in range(len(a))]
        out = []
        for i, xi in enumerate(xs):
            less = 0
            eq = 0
            for j, xj in enumerate(xs):
                less = less + core.R(xj < xi)
                eq = eq + core.R(xj == xi)
            out.append(less + (eq + 1) / 2)
        return symnp.asarray(out) if out else symnp.zeros(0)


class _Special(_Proxy):
    def __init__(self):
        super().__init__(rscipy.special, 'scipy.special')

    def loggamma(self, x, **kw):
        if symnp.all_concrete(x):
            return symnp.delegate(rscipy.special.loggamma, x, **kw)
        def one(e):
            if isinstance(e, core.SFP) or (core.MODE['float'] == 'fp' and not isinstance(e, XR)):
                f = z3.Function('fp_lgamma', core.F64, core.F64)
                return core.SFP(f(core.to_fp(e).t), core.DT64)
            return core.xlgamma(e)
        return _ew(one, x)

    gammaln = loggamma


class _Scipy(_Proxy):
    def __init__(self):
        super().__init__(rscipy, 'scipy')
        self.stats = _Stats()
        self.special = _Special()
        self.spatial = _Proxy(rscipy.spatial, 'scipy.spatial')
        self.interpolate = _Proxy(rscipy.interpolate, 'scipy.interpolate')
        self.__name__ = 'scipy'


scipy = _Scipy()
