"""Path condition, re-execution explorer and symbolic scalars.

Numeric kinds
  SBool   z3 Bool
  SInt    z3 Int            (Python int; used in XReal/Int harnesses)
  SBV     z3 BitVec(64)     (numpy int64; used in FP harnesses; signed, wraps like the machine word)
  SFP     z3 Float64/Float32, round-nearest-even, bit exact
  XR      extended real: (finite value: Real, nan: Bool, inf: Int in {-1,0,1})

A symbolic Bool that reaches `if` / `while` / `and` / `or` / `assert` forks the path (decide()).
"""
import math
import struct
import time
import operator
from fractions import Fraction

import numpy as _np
import z3

F64 = z3.Float64()
F32 = z3.Float32()
import sys as _sys
if hasattr(_sys, 'set_int_max_str_digits'):
    _sys.set_int_max_str_digits(0)      # nonlinear models can carry rationals with thousands of digits
RNE = z3.RNE()
RTN = z3.RTN()
RTZ = z3.RTZ()
BV64 = z3.BitVecSort(64)
DT64 = _np.dtype('float64')
DT32 = _np.dtype('float32')
DTI = _np.dtype('int64')
DTB = _np.dtype('bool')

MODE = {'float': 'fp'}          # how a Python/numpy float meets a symbolic integer: 'fp' or 'xr'
STATS = {'queries': 0, 'solver_s': 0.0, 'paths': 0, 'decisions': 0, 'unknown_branch': 0}
DECIDE_TIMEOUT_MS = 20000
OPT = {'optimistic': False,     # fork without asking the solver (infeasible paths are refuted by the final queries)
       'lazy_bounds': False,    # index-in-bounds checks become recorded assertions instead of forks
       'symbolic_transc': False}  # XReal mode: sqrt/log/exp of concrete numbers stay uninterpreted terms (exact algebra)


class Infeasible(BaseException):
    """Raised inside a run when the current path condition is unsatisfiable."""


class Truncated(BaseException):
    """The run left the stated bound (e.g. more random draws than the harness allows): the path is dropped
    and counted, never reported as a result."""


class NotModelled(Exception):
    """The model library was asked for something it does not model symbolically."""


class Ctx:
    def __init__(self, decisions):
        self.pc = []
        self.decisions = decisions
        self.pos = 0
        self.notes = {}
        self.fresh = 0
        self.decided = {}       # term id -> bool: conditions already fixed on this path


CTX = None


def ctx():
    return CTX


def fresh_name(prefix):
    CTX.fresh += 1
    return '%s!%d' % (prefix, CTX.fresh)


def timed_check(s, timeout_ms):
    """s.check() under z3's own timeout (soft); the job runner enforces the hard wall-clock limit per job"""
    if timeout_ms:
        s.set('timeout', int(timeout_ms))
    try:
        return str(s.check())
    except z3.Z3Exception:
        return 'unknown'


def check(fs, timeout_ms=None):
    """One-shot satisfiability of pc + fs. Returns 'sat' / 'unsat' / 'unknown'."""
    s = z3.Solver()
    if CTX is not None:
        s.add(*CTX.pc)
    s.add(*fs)
    t = time.time()
    r = timed_check(s, timeout_ms)
    STATS['solver_s'] += time.time() - t
    STATS['queries'] += 1
    return r


def decide(term):
    """Fork on a z3 Bool term; returns the Python bool of the side this run follows."""
    if isinstance(term, bool):
        return term
    term = z3.simplify(term)
    if z3.is_true(term):
        return True
    if z3.is_false(term):
        return False
    c = CTX
    if c is None:
        raise RuntimeError('symbolic branch outside explore()')
    tid = term.get_id()
    if tid in c.decided:
        return c.decided[tid]
    if z3.is_not(term) and term.arg(0).get_id() in c.decided:
        return not c.decided[term.arg(0).get_id()]
    if c.pos < len(c.decisions):
        val = c.decisions[c.pos][0]
    else:
        if OPT['optimistic']:
            rt = rf = 'unknown'
        else:
            rt = check([term], DECIDE_TIMEOUT_MS)
            rf = check([z3.Not(term)], DECIDE_TIMEOUT_MS)
            if 'unknown' in (rt, rf):
                STATS['unknown_branch'] += 1
        t = rt != 'unsat'
        f = rf != 'unsat'
        if t and f:
            c.decisions.append((True, True))
            val = True
        elif t:
            c.decisions.append((True, False))
            val = True
        elif f:
            c.decisions.append((False, False))
            val = False
        else:
            raise Infeasible()
        STATS['decisions'] += 1
    c.pos += 1
    c.pc.append(term if val else z3.Not(term))
    c.decided[tid] = val
    return val


def lazy_assert(term, what):
    """Record `term` as an assertion of the program under test (checked by the harness at the end against the
    path condition as it was here) and continue under it."""
    c = CTX
    c.notes.setdefault('asserts', []).append((term, what, len(c.pc)))
    c.pc.append(term)


def assume(term):
    """Add a constraint to the path condition (no feasibility check)."""
    if isinstance(term, SBool):
        term = term.t
    if isinstance(term, bool):
        if not term:
            raise Infeasible()
        return
    CTX.pc.append(term)


class Path:
    __slots__ = ('pc', 'kind', 'value', 'exc', 'notes')

    def __init__(self, pc, kind, value, exc, notes):
        self.pc = pc
        self.kind = kind          # 'ok' | 'exc'
        self.value = value
        self.exc = exc            # exception instance for 'exc'
        self.notes = notes

    def exc_name(self):
        return type(self.exc).__name__ if self.exc is not None else None


def explore(run, max_paths=20000, deadline=None):
    """Depth-first exploration by re-execution. `run` is executed once per path from the start."""
    global CTX
    out = []
    decisions = []
    truncated = False
    while True:
        CTX = Ctx(decisions)
        res = None
        try:
            v = run()
            res = Path(list(CTX.pc), 'ok', v, None, CTX.notes)
        except Infeasible:
            res = None
        except Truncated:
            res = None
            STATS['truncated_paths'] = STATS.get('truncated_paths', 0) + 1
        except NotModelled:
            CTX = None
            raise                   # a gap in the model library is a harness error, never a program result
        except Exception as e:      # the program under test raised: that is a result too
            res = Path(list(CTX.pc), 'exc', None, e, CTX.notes)
        if res is not None:
            out.append(res)
            STATS['paths'] += 1
        decisions = CTX.decisions
        while decisions and not decisions[-1][1]:
            decisions.pop()
        if not decisions:
            break
        if len(out) >= max_paths or (deadline and time.time() > deadline):
            truncated = True
            break
        decisions[-1] = (not decisions[-1][0], False)
    CTX = None
    return out, truncated


# ----------------------------------------------------------------------------------------------
# scalars


class Sym:
    __array_ufunc__ = None      # numpy scalars / arrays defer to our reflected operators
    __slots__ = ()


def is_sym(x):
    return isinstance(x, Sym)


class SBool(Sym):
    __slots__ = ('t',)
    dtype = DTB

    def __init__(self, t):
        self.t = t if not isinstance(t, bool) else z3.BoolVal(t)

    def __bool__(self):
        return decide(self.t)

    def __and__(self, o):
        return SBool(z3.And(self.t, tb(o)))
    __rand__ = __and__

    def __or__(self, o):
        return SBool(z3.Or(self.t, tb(o)))
    __ror__ = __or__

    def __xor__(self, o):
        return SBool(z3.Xor(self.t, tb(o)))
    __rxor__ = __xor__

    def __invert__(self):
        return SBool(z3.Not(self.t))

    def __eq__(self, o):
        if _is_boolish(o):
            return SBool(self.t == tb(o))
        return _as_num(self) == o

    def __ne__(self, o):
        if _is_boolish(o):
            return SBool(self.t != tb(o))
        return _as_num(self) != o

    __hash__ = None

    def _n(self):
        return _as_num(self)

    def __add__(self, o): return self._n() + o
    def __radd__(self, o): return o + self._n()
    def __sub__(self, o): return self._n() - o
    def __rsub__(self, o): return o - self._n()
    def __mul__(self, o): return self._n() * o
    def __rmul__(self, o): return o * self._n()
    def __truediv__(self, o): return self._n() / o
    def __rtruediv__(self, o): return o / self._n()
    def __lt__(self, o): return self._n() < o
    def __le__(self, o): return self._n() <= o
    def __gt__(self, o): return self._n() > o
    def __ge__(self, o): return self._n() >= o
    def __neg__(self): return -self._n()

    def astype(self, dt):
        return cast(self, _np.dtype(dt))

    def __repr__(self):
        return 'SBool(%s)' % self.t


def _is_boolish(o):
    return isinstance(o, (SBool, bool, _np.bool_))


def tb(x):
    if isinstance(x, SBool):
        return x.t
    if isinstance(x, (bool, _np.bool_)):
        return z3.BoolVal(bool(x))
    if isinstance(x, (int, _np.integer)):
        return z3.BoolVal(bool(x))
    raise TypeError('not a boolean: %r' % (type(x),))


def _as_num(b):
    """bool -> integer 0/1 in the integer kind of the current mode."""
    if MODE['float'] == 'fp':
        return SBV(z3.If(b.t, z3.BitVecVal(1, 64), z3.BitVecVal(0, 64)))
    return SInt(z3.If(b.t, z3.IntVal(1), z3.IntVal(0)), dom=(0, 1))


# ---- integers --------------------------------------------------------------------------------

def _int_const(o):
    if isinstance(o, (bool, _np.bool_)):
        return int(o)
    if isinstance(o, (int, _np.integer)):
        return int(o)
    return None


class SInt(Sym):
    """Mathematical integer (Python int)."""
    __slots__ = ('t', 'dom')
    dtype = DTI

    def __init__(self, t, dom=None):
        self.t = z3.IntVal(t) if isinstance(t, int) else t
        self.dom = dom          # optional (lo, hi): known small range, used to linearise products

    def _lift(self, o):
        c = _int_const(o)
        if c is not None:
            return z3.IntVal(c)
        if isinstance(o, SInt):
            return o.t
        if isinstance(o, SBool):
            return z3.If(o.t, z3.IntVal(1), z3.IntVal(0))
        return None

    def _f(self):
        return int_to_float(self)

    def _arith(self, o, f, rev=False, domf=None):
        l = self._lift(o)
        if l is None:
            if isinstance(o, (float, _np.floating, XR, SFP, EFP)):
                a = self._f()
                return f(o, a) if rev else f(a, o)
            return NotImplemented
        r = f(l, self.t) if rev else f(self.t, l)
        dom = None
        if domf is not None and self.dom is not None:
            c = _int_const(o)
            if c is not None:
                dom = domf(self.dom, c, rev)
        return SInt(r, dom)

    def __add__(self, o): return self._arith(o, operator.add, False, lambda d, c, r: (d[0] + c, d[1] + c))
    def __radd__(self, o): return self._arith(o, operator.add, True, lambda d, c, r: (d[0] + c, d[1] + c))
    def __sub__(self, o): return self._arith(o, operator.sub, False, lambda d, c, r: (d[0] - c, d[1] - c))
    def __rsub__(self, o): return self._arith(o, operator.sub, True, lambda d, c, r: (c - d[1], c - d[0]))

    def __mul__(self, o):
        if MODE['float'] == 'env' and isinstance(o, (float, _np.floating, EFP)):
            return self._f() * o
        if isinstance(o, (XR, float, _np.floating, SFP)) or (isinstance(o, SInt) and self.dom is not None and _int_const(o) is None):
            return small_int_mul(self, o)
        return self._arith(o, operator.mul)

    def __rmul__(self, o):
        return self.__mul__(o)

    def __truediv__(self, o):
        return self._f() / o

    def __rtruediv__(self, o):
        return o / self._f()

    def __divmod__(self, o):
        return self // o, self % o

    def __floordiv__(self, o):
        c = _int_const(o)
        if c is not None and c > 0:
            return SInt(self.t / z3.IntVal(c))       # z3 Int div = floor for positive divisor
        return NotImplemented

    def __mod__(self, o):
        c = _int_const(o)
        if c is not None and c > 0:
            return SInt(self.t % z3.IntVal(c), dom=(0, c - 1))
        return NotImplemented

    def __neg__(self):
        return SInt(-self.t, None if self.dom is None else (-self.dom[1], -self.dom[0]))

    def __pos__(self):
        return self

    def __abs__(self):
        return SInt(z3.If(self.t >= 0, self.t, -self.t))

    def __pow__(self, o):
        if o == 2:
            return self * self
        return NotImplemented

    def _cmp(self, o, f, fl):
        l = self._lift(o)
        if l is None:
            if isinstance(o, (float, _np.floating, XR, SFP, EFP)):
                return fl(self._f(), o)
            return NotImplemented
        return SBool(f(self.t, l))

    def __eq__(self, o):
        r = self._cmp(o, operator.eq, operator.eq)
        return False if r is NotImplemented else r

    def __ne__(self, o):
        r = self._cmp(o, operator.ne, operator.ne)
        return True if r is NotImplemented else r

    def __lt__(self, o): return self._cmp(o, operator.lt, operator.lt)
    def __le__(self, o): return self._cmp(o, operator.le, operator.le)
    def __gt__(self, o): return self._cmp(o, operator.gt, operator.gt)
    def __ge__(self, o): return self._cmp(o, operator.ge, operator.ge)
    __hash__ = None

    def __index__(self):
        return concretize(self)

    def __int__(self):
        return concretize(self)

    def __bool__(self):
        return decide(self.t != 0)

    def astype(self, dt):
        return cast(self, _np.dtype(dt))

    def item(self):
        return self

    def __repr__(self):
        return 'SInt(%s)' % self.t


class SBV(Sym):
    """numpy int64: signed 64-bit machine integer."""
    __slots__ = ('t',)
    dtype = DTI

    def __init__(self, t):
        self.t = z3.BitVecVal(t, 64) if isinstance(t, int) else t

    def _lift(self, o):
        c = _int_const(o)
        if c is not None:
            return z3.BitVecVal(c, 64)
        if isinstance(o, SBV):
            return o.t
        if isinstance(o, SBool):
            return z3.If(o.t, z3.BitVecVal(1, 64), z3.BitVecVal(0, 64))
        return None

    def _f(self):
        return SFP(z3.fpSignedToFP(RNE, self.t, F64), DT64)

    def _arith(self, o, f, rev=False):
        l = self._lift(o)
        if l is None:
            if isinstance(o, (float, _np.floating, SFP)):
                a = self._f()
                return f(o, a) if rev else f(a, o)
            return NotImplemented
        return SBV(f(l, self.t) if rev else f(self.t, l))

    def __add__(self, o): return self._arith(o, operator.add)
    def __radd__(self, o): return self._arith(o, operator.add, True)
    def __sub__(self, o): return self._arith(o, operator.sub)
    def __rsub__(self, o): return self._arith(o, operator.sub, True)
    def __mul__(self, o): return self._arith(o, operator.mul)
    def __rmul__(self, o): return self._arith(o, operator.mul, True)
    def __truediv__(self, o): return self._f() / o
    def __rtruediv__(self, o): return o / self._f()
    def __neg__(self): return SBV(-self.t)
    def __abs__(self): return SBV(z3.If(self.t >= 0, self.t, -self.t))

    def __mod__(self, o):
        c = _int_const(o)
        if c is not None and c > 0:
            return SBV((self.t % z3.BitVecVal(c, 64)))       # sign follows the (positive) divisor: floor mod
        return NotImplemented

    def __divmod__(self, o):
        return self // o, self % o

    def __floordiv__(self, o):
        c = _int_const(o)
        if c is not None and c > 0:
            cv = z3.BitVecVal(c, 64)
            return SBV((self.t - self.t % cv) / cv)         # exact signed division after removing the floor remainder
        return NotImplemented

    def _cmp(self, o, f, fl):
        l = self._lift(o)
        if l is None:
            if isinstance(o, (float, _np.floating, SFP)):
                return fl(self._f(), o)
            return NotImplemented
        return SBool(f(self.t, l))      # z3py: <, <= ... on BitVec are signed

    def __eq__(self, o):
        r = self._cmp(o, operator.eq, operator.eq)
        return False if r is NotImplemented else r

    def __ne__(self, o):
        r = self._cmp(o, operator.ne, operator.ne)
        return True if r is NotImplemented else r

    def __lt__(self, o): return self._cmp(o, operator.lt, operator.lt)
    def __le__(self, o): return self._cmp(o, operator.le, operator.le)
    def __gt__(self, o): return self._cmp(o, operator.gt, operator.gt)
    def __ge__(self, o): return self._cmp(o, operator.ge, operator.ge)
    __hash__ = None

    def __index__(self):
        return concretize(self)

    def __int__(self):
        return concretize(self)

    def __bool__(self):
        return decide(self.t != 0)

    def astype(self, dt):
        return cast(self, _np.dtype(dt))

    def item(self):
        return self

    def __repr__(self):
        return 'SBV(%s)' % self.t


def concretize(si, lo=None, hi=None, limit=64):
    """Fork over the possible values of a small symbolic integer."""
    if isinstance(si, SInt):
        if si.dom is not None:
            lo, hi = si.dom if lo is None else (lo, hi)
        mk = lambda v: si.t == v
    elif isinstance(si, SBV):
        mk = lambda v: si.t == z3.BitVecVal(v, 64)
    else:
        return int(si)
    if lo is None:
        lo, hi = -1, limit
    for v in range(lo, hi + 1):
        if decide(mk(v)):
            return v
    raise NotModelled('symbolic integer outside the enumerated range %s..%s' % (lo, hi))


def int_to_float(x):
    """symbolic integer -> float of the current mode"""
    if isinstance(x, SBV):
        return x._f()
    if MODE['float'] == 'xr':
        return XR(z3.ToReal(x.t), dom=x.dom, it=x.t)
    if MODE['float'] == 'env':
        return EFP(z3.ToReal(x.t), True)        # exact below 2^53 (range assumption of the harness)
    raise NotModelled('SInt -> FP conversion (use SBV in FP harnesses)')


# ---- IEEE floats ------------------------------------------------------------------------------

def f64_bits(x):
    return struct.unpack('<Q', struct.pack('<d', float(x)))[0]


def f32_bits(x):
    return struct.unpack('<I', struct.pack('<f', float(x)))[0]


def fpconst(x, sort=F64):
    """exact FP numeral from a Python/numpy number"""
    if sort == F64:
        return z3.simplify(z3.fpBVToFP(z3.BitVecVal(f64_bits(x), 64), F64))
    return z3.simplify(z3.fpBVToFP(z3.BitVecVal(f32_bits(_np.float32(x)), 32), F32))


def _sort_of(dt):
    return F32 if dt == DT32 else F64


class SFP(Sym):
    __slots__ = ('t', 'dtype')

    def __init__(self, t, dtype=DT64):
        self.t = t
        self.dtype = dtype

    # -- coercion following numpy 2 promotion (python scalars weak, numpy scalars strong)
    def _co(self, o):
        """return (self_term, other_term, dtype) or None"""
        if isinstance(o, SFP):
            if o.dtype == self.dtype:
                return self.t, o.t, self.dtype
            a = self.t if self.dtype == DT64 else z3.fpFPToFP(RNE, self.t, F64)
            b = o.t if o.dtype == DT64 else z3.fpFPToFP(RNE, o.t, F64)
            return a, b, DT64
        if isinstance(o, (bool, int, float)):                      # weak
            return self.t, fpconst(float(o), _sort_of(self.dtype)), self.dtype
        if isinstance(o, _np.floating):
            dt = _np.result_type(self.dtype, o.dtype)
            if dt == self.dtype and o.dtype == self.dtype:
                return self.t, fpconst(o, _sort_of(dt)), dt
            a = self.t if self.dtype == DT64 else z3.fpFPToFP(RNE, self.t, F64)
            return a, fpconst(float(o), F64), DT64
        if isinstance(o, (_np.integer, _np.bool_)):
            a = self.t if self.dtype == DT64 else z3.fpFPToFP(RNE, self.t, F64)
            return a, fpconst(float(o), F64), DT64
        if isinstance(o, SBV):
            a = self.t if self.dtype == DT64 else z3.fpFPToFP(RNE, self.t, F64)
            return a, o._f().t, DT64
        if isinstance(o, SBool):
            return self._co(_as_num(o))
        return None

    def _arith(self, o, f, rev=False):
        c = self._co(o)
        if c is None:
            return NotImplemented
        a, b, dt = c
        return SFP(f(RNE, b, a) if rev else f(RNE, a, b), dt)

    def __add__(self, o): return self._arith(o, z3.fpAdd)
    def __radd__(self, o): return self._arith(o, z3.fpAdd, True)
    def __sub__(self, o): return self._arith(o, z3.fpSub)
    def __rsub__(self, o): return self._arith(o, z3.fpSub, True)
    def __mul__(self, o): return self._arith(o, z3.fpMul)
    def __rmul__(self, o): return self._arith(o, z3.fpMul, True)
    def __truediv__(self, o): return self._arith(o, z3.fpDiv)
    def __rtruediv__(self, o): return self._arith(o, z3.fpDiv, True)

    @staticmethod
    def _floordiv_terms(rm, a, b):
        """Python / numpy float floor division (npy_divmod): the floor of the EXACT quotient. With d = RNE(a / b) and f = floor(d),
        the exact floor is f, or f - 1 when rounding carried d up onto an integer; the sign of the fused a - f*b (one rounding,
        sign exact) tells which. Special cases as numpy: b == 0 -> a / b; a infinite or any NaN -> NaN; b infinite -> -1 when the
        signs differ and a != 0, else a signed zero."""
        srt = a.sort()
        d = z3.fpDiv(RNE, a, b)
        f = z3.fpRoundToIntegral(RTN, d)
        r = z3.fpFMA(RNE, z3.fpNeg(f), b, a)
        zero = z3.fpPlusZero(srt)
        adj = z3.Or(z3.And(z3.fpGT(b, zero), z3.fpLT(r, zero)), z3.And(z3.fpLT(b, zero), z3.fpGT(r, zero)))
        corefd = z3.If(adj, z3.fpSub(RNE, f, z3.FPVal(1.0, srt)), f)
        corefd = z3.If(z3.fpIsZero(corefd), z3.If(z3.fpIsNegative(d), z3.fpMinusZero(srt), zero), corefd)
        signs_differ = z3.Xor(z3.fpIsNegative(a), z3.fpIsNegative(b))
        binf = z3.If(z3.And(z3.Not(z3.fpIsZero(a)), signs_differ), z3.FPVal(-1.0, srt), z3.If(signs_differ, z3.fpMinusZero(srt), zero))
        return z3.If(z3.Or(z3.fpIsNaN(a), z3.fpIsNaN(b), z3.fpIsInf(a)), z3.fpNaN(srt),
                     z3.If(z3.fpIsZero(b), d, z3.If(z3.fpIsInf(b), binf, corefd)))

    def __floordiv__(self, o): return self._arith(o, SFP._floordiv_terms)
    def __rfloordiv__(self, o): return self._arith(o, SFP._floordiv_terms, True)
    def __neg__(self): return SFP(z3.fpNeg(self.t), self.dtype)
    def __pos__(self): return self
    def __abs__(self): return SFP(z3.fpAbs(self.t), self.dtype)

    def __pow__(self, o):
        if isinstance(o, int) and o == 2:
            return self * self
        return NotImplemented

    def _cmp(self, o, f):
        c = self._co(o)
        if c is None:
            return NotImplemented
        return SBool(f(c[0], c[1]))

    def __lt__(self, o): return self._cmp(o, z3.fpLT)
    def __le__(self, o): return self._cmp(o, z3.fpLEQ)
    def __gt__(self, o): return self._cmp(o, z3.fpGT)
    def __ge__(self, o): return self._cmp(o, z3.fpGEQ)

    def __eq__(self, o):
        r = self._cmp(o, z3.fpEQ)
        return False if r is NotImplemented else r

    def __ne__(self, o):
        r = self._cmp(o, z3.fpEQ)
        return True if r is NotImplemented else ~r
    __hash__ = None

    def __bool__(self):
        return decide(z3.Not(z3.fpIsZero(self.t)))

    # numpy object-array ufunc protocol: numpy.floor(obj_array) calls elem.floor()
    def floor(self): return SFP(z3.fpRoundToIntegral(RTN, self.t), self.dtype)
    def ceil(self): return SFP(z3.fpRoundToIntegral(z3.RTP(), self.t), self.dtype)
    def rint(self): return SFP(z3.fpRoundToIntegral(RNE, self.t), self.dtype)
    def trunc(self): return SFP(z3.fpRoundToIntegral(RTZ, self.t), self.dtype)
    def sqrt(self): return SFP(z3.fpSqrt(RNE, self.t), self.dtype)

    def __round__(self, n=None):
        if n is None:
            return cast(self.rint(), DTI)
        raise NotModelled('round(x, n)')

    def isnan(self): return SBool(z3.fpIsNaN(self.t))
    def isinf(self): return SBool(z3.fpIsInf(self.t))

    def astype(self, dt):
        return cast(self, _np.dtype(dt))

    def item(self):
        return self

    def __float__(self):
        raise NotModelled('float() of a symbolic FP value through the C API')

    def __repr__(self):
        return 'SFP(%s)' % self.t


# ---- extended reals ----------------------------------------------------------------------------

def _rv(x):
    f = Fraction(x)
    return z3.Q(f.numerator, f.denominator) if f.denominator != 1 else z3.RealVal(f.numerator)


_B0 = z3.BoolVal(False)
_I0 = z3.IntVal(0)


class XR(Sym):
    """Extended real number. v is meaningful only when finite."""
    __slots__ = ('v', 'nan', 'inf', 'dom', 'it')
    dtype = DT64

    def __init__(self, v, nan=None, inf=None, dom=None, it=None):
        self.v = v
        self.nan = _B0 if nan is None else nan
        self.inf = _I0 if inf is None else inf
        self.dom = dom      # (lo, hi) when the value is a small-range integer
        self.it = it        # the Int term it was converted from, if any

    @property
    def plain(self):
        return self.nan is _B0 and self.inf is _I0

    def fin(self):
        if self.plain:
            return z3.BoolVal(True)
        return z3.And(z3.Not(self.nan), self.inf == 0)

    def __add__(self, o):
        o = R(o)
        if o is None:
            return NotImplemented
        if self.plain and o.plain:
            dom = None
            if self.dom is not None and o.dom is not None and o.dom[0] == o.dom[1]:
                dom = (self.dom[0] + o.dom[0], self.dom[1] + o.dom[0])
            elif (OPT.get('sum_dom') and self.dom is not None and o.dom is not None and self.it is not None and o.it is not None
                  and (self.dom[1] + o.dom[1]) - (self.dom[0] + o.dom[0]) <= 12):
                dom = (self.dom[0] + o.dom[0], self.dom[1] + o.dom[1])      # sums of small-range integers stay small-range
            it = None
            if self.it is not None and o.it is not None:
                it = self.it + o.it
            return XR(self.v + o.v, dom=dom, it=it)
        nan = z3.Or(self.nan, o.nan, z3.And(self.inf != 0, o.inf != 0, self.inf != o.inf))
        inf = z3.If(self.inf != 0, self.inf, o.inf)
        return XR(self.v + o.v, nan, inf)
    __radd__ = __add__

    def __neg__(self):
        if self.plain:
            return XR(-self.v, dom=None if self.dom is None else (-self.dom[1], -self.dom[0]),
                      it=None if self.it is None else -self.it)
        return XR(-self.v, self.nan, -self.inf)

    def __pos__(self):
        return self

    def __sub__(self, o):
        o = R(o)
        if o is None:
            return NotImplemented
        return self + (-o)

    def __rsub__(self, o):
        o = R(o)
        if o is None:
            return NotImplemented
        return o + (-self)

    def __mul__(self, o):
        o = R(o)
        if o is None:
            return NotImplemented
        # keep arithmetic linear where one factor is a small-range integer
        if self.dom is not None and not _is_numeral(o.v) and self.plain and self.dom[1] - self.dom[0] <= 16:
            return _dom_mul(self, o)
        if o.dom is not None and not _is_numeral(self.v) and o.plain and o.dom[1] - o.dom[0] <= 16:
            return _dom_mul(o, self)
        if self.plain and o.plain:
            it = None
            if self.it is not None and o.it is not None:
                it = self.it * o.it
            return XR(self.v * o.v, it=it)
        sgn = lambda a: z3.If(a.inf != 0, a.inf, z3.If(a.v > 0, 1, z3.If(a.v < 0, -1, 0)))
        anyinf = z3.Or(self.inf != 0, o.inf != 0)
        nan = z3.Or(self.nan, o.nan,
                    z3.And(anyinf, z3.Or(z3.And(self.inf == 0, self.v == 0), z3.And(o.inf == 0, o.v == 0))))
        inf = z3.If(anyinf, sgn(self) * sgn(o), 0)
        return XR(self.v * o.v, nan, inf)
    __rmul__ = __mul__

    def __truediv__(self, o):
        o = R(o)
        if o is None:
            return NotImplemented
        return xdiv(self, o)

    def __mod__(self, o):
        """Python / numpy floored modulo by a positive numeral (exact real arithmetic)"""
        o = R(o)
        if o is None or not self.plain or not o.plain or not _is_numeral(o.v):
            return NotImplemented
        if not z3.is_true(z3.simplify(o.v > 0)):
            return NotImplemented
        q = z3.ToInt(self.v / o.v)
        return XR(self.v - o.v * z3.ToReal(q))

    def __rtruediv__(self, o):
        o = R(o)
        if o is None:
            return NotImplemented
        return xdiv(o, self)

    def __pow__(self, o):
        if isinstance(o, (int, _np.integer)) and int(o) == 2:
            return self * self
        if isinstance(o, (int, _np.integer)) and int(o) == 1:
            return self
        return NotImplemented

    def __abs__(self):
        if self.plain:
            return XR(z3.If(self.v >= 0, self.v, -self.v))
        return XR(z3.If(self.v >= 0, self.v, -self.v), self.nan, z3.If(self.inf != 0, z3.IntVal(1), z3.IntVal(0)))

    def _cmp(self, o, f):
        o = R(o)
        if o is None:
            return NotImplemented
        if self.plain and o.plain:
            return SBool(f(self.v < o.v, self.v == o.v))
        lt = z3.Or(self.inf < o.inf, z3.And(self.inf == 0, o.inf == 0, self.v < o.v))
        eq = z3.And(self.inf == o.inf, z3.Or(self.inf != 0, self.v == o.v))
        ok = z3.And(z3.Not(self.nan), z3.Not(o.nan))
        return SBool(z3.And(ok, f(lt, eq)))

    def __lt__(self, o): return self._cmp(o, lambda lt, eq: lt)
    def __le__(self, o): return self._cmp(o, lambda lt, eq: z3.Or(lt, eq))
    def __gt__(self, o): return self._cmp(o, lambda lt, eq: z3.And(z3.Not(lt), z3.Not(eq)))
    def __ge__(self, o): return self._cmp(o, lambda lt, eq: z3.Not(lt))

    def __eq__(self, o):
        r = self._cmp(o, lambda lt, eq: eq)
        return False if r is NotImplemented else r

    def __ne__(self, o):
        r = self._cmp(o, lambda lt, eq: eq)
        return True if r is NotImplemented else ~r
    __hash__ = None

    def __bool__(self):
        return decide((self != 0).t)

    def isnan(self): return SBool(self.nan)
    def isinf(self): return SBool(z3.And(z3.Not(self.nan), self.inf != 0))

    def floor(self):
        if not self.plain:
            raise NotModelled('floor of a possibly non-finite extended real')
        if self.it is not None:
            return self
        i = z3.ToInt(self.v)
        return XR(z3.ToReal(i), it=i)

    def rint(self):
        """nearest integer, ties to even (exact real arithmetic)"""
        if not self.plain:
            raise NotModelled('rint of a possibly non-finite extended real')
        if self.it is not None:
            return self
        fl = z3.ToInt(self.v)
        fr = self.v - z3.ToReal(fl)
        i = z3.If(fr < z3.RealVal(1) / 2, fl, z3.If(fr > z3.RealVal(1) / 2, fl + 1, z3.If(fl % 2 == 0, fl, fl + 1)))
        return XR(z3.ToReal(i), it=i)

    def __round__(self, n=None):
        if n is None:
            return SInt(self.rint().it)
        raise NotModelled('round(x, n)')

    def sqrt(self): return xuf('sqrt', self)
    def log(self): return xlog(self)
    def log10(self): return xlog(self, 'log10')
    def exp(self): return xexp(self)

    def astype(self, dt):
        return cast(self, _np.dtype(dt))

    def item(self):
        return self

    def __repr__(self):
        return 'XR(%s%s)' % (self.v, '' if self.plain else ', nan=%s, inf=%s' % (self.nan, self.inf))


def _is_numeral(t):
    return z3.is_rational_value(t) or z3.is_int_value(t) or z3.is_algebraic_value(t)


def R(x):
    """anything numeric -> XR (None if impossible)"""
    if isinstance(x, XR):
        return x
    if isinstance(x, SInt):
        return XR(z3.ToReal(x.t), dom=x.dom, it=x.t)
    if isinstance(x, SBool):
        return XR(z3.If(x.t, z3.RealVal(1), z3.RealVal(0)), dom=(0, 1), it=z3.If(x.t, z3.IntVal(1), z3.IntVal(0)))
    if isinstance(x, (bool, _np.bool_)):
        x = int(x)
    if isinstance(x, (int, _np.integer)):
        x = int(x)
        return XR(z3.RealVal(x), dom=(x, x), it=z3.IntVal(x))
    if isinstance(x, (float, _np.floating)):
        x = float(x)
        if x != x:
            return XR(z3.RealVal(0), nan=z3.BoolVal(True))
        if x in (math.inf, -math.inf):
            return XR(z3.RealVal(0), inf=z3.IntVal(1 if x > 0 else -1))
        if x == int(x) and abs(x) < 2 ** 53:
            return XR(_rv(x), dom=(int(x), int(x)), it=z3.IntVal(int(x)))
        return XR(_rv(x))
    return None


def _dom_mul(w, term):
    """w has a small integer domain: w*term as an ite-chain of constant multiples (stays linear)"""
    lo, hi = w.dom
    sel = w.it if w.it is not None else w.v
    out_v = z3.RealVal(0) * term.v if False else None
    for v in range(hi, lo - 1, -1):
        pv = term.v * v
        out_v = pv if out_v is None else z3.If(sel == v, pv, out_v)
    if term.plain:
        dom = None
        it = None
        if term.dom is not None:
            cands = [a * b for a in (lo, hi) for b in term.dom]
            dom = (min(cands), max(cands))
            if term.it is not None:
                it_t = None
                for v in range(hi, lo - 1, -1):
                    pv = term.it * v
                    it_t = pv if it_t is None else z3.If(sel == v, pv, it_t)
                it = it_t
        return XR(out_v, dom=dom, it=it)
    wz = (sel == 0)
    nan = z3.Or(term.nan, z3.And(term.inf != 0, wz))
    wsgn = z3.If(sel > 0, 1, z3.If(sel < 0, -1, 0))
    inf = z3.If(term.inf != 0, term.inf * wsgn, 0)
    return XR(out_v, nan, inf)


def small_int_mul(si, o):
    return R(si) * o if not isinstance(o, SFP) else si._f() * o


_DIVCACHE = {}


def xdiv(a, b):
    """a / b on extended reals. Finite/finite-nonzero division is eliminated: q fresh with q*b = a
    (constraint appended to the path condition at once); numeral divisors divide directly."""
    if a.plain and b.plain and _is_numeral(b.v) and not z3.simplify(b.v == 0).eq(z3.BoolVal(True)):
        return XR(a.v / b.v)
    bz = z3.And(b.fin(), b.v == 0)
    az = z3.And(a.fin(), a.v == 0)
    key = (a.v.get_id(), b.v.get_id())
    c = CTX
    cache = c.notes.setdefault('_divcache', {}) if c is not None else _DIVCACHE
    if key in cache:
        q = cache[key]
    else:
        q = z3.Real(fresh_name('q') if c is not None else 'q!%d' % len(cache))
        cache[key] = q
        side = z3.Implies(b.v != 0, q * b.v == a.v)
        if c is not None:
            c.pc.append(side)
            c.notes.setdefault('_divs', []).append((q, a.v, b.v))
    if a.plain and b.plain:
        nan = az & bz if False else z3.And(az, bz)
        inf = z3.If(z3.And(bz, z3.Not(az)), z3.If(a.v > 0, 1, -1), 0)
        return XR(q, nan, inf)
    nan = z3.Or(a.nan, b.nan, z3.And(az, bz), z3.And(a.inf != 0, b.inf != 0))
    asgn = z3.If(a.inf != 0, a.inf, z3.If(a.v > 0, 1, z3.If(a.v < 0, -1, 0)))
    bsgn = z3.If(b.inf != 0, b.inf, z3.If(b.v >= 0, 1, -1))
    inf = z3.If(z3.Or(z3.And(a.inf != 0, b.inf == 0), z3.And(bz, z3.Not(az))), asgn * bsgn, 0)
    val = z3.If(b.inf != 0, z3.RealVal(0), q)
    return XR(val, nan, inf)


UF = {}


def uf(name, arity=1):
    if name not in UF:
        UF[name] = z3.Function(name, *([z3.RealSort()] * (arity + 1)))
    return UF[name]


def xuf(name, a, *more):
    """total uninterpreted function on the finite part; nan/inf propagate as nan (conservative)"""
    a = R(a)
    ms = [R(m) for m in more]
    v = uf(name, 1 + len(ms))(a.v, *[m.v for m in ms])
    if a.plain and all(m.plain for m in ms):
        return XR(v)
    bad = z3.Or([z3.Not(a.fin())] + [z3.Not(m.fin()) for m in ms])
    return XR(v, bad, _I0)


def xlog(a, name='log'):
    a = R(a)
    f = uf(name)
    if a.plain:
        return XR(f(a.v), a.v < 0, z3.If(a.v == 0, -1, 0))
    nan = z3.Or(a.nan, z3.And(a.inf == 0, a.v < 0), a.inf == -1)
    inf = z3.If(z3.And(z3.Not(a.nan), a.inf == 1), 1, z3.If(z3.And(a.inf == 0, a.v == 0, z3.Not(a.nan)), -1, 0))
    return XR(f(a.v), nan, inf)


def xexp(a):
    a = R(a)
    f = uf('exp')
    if a.plain:
        return XR(f(a.v))
    # exp(-inf) = 0, exp(+inf) = +inf
    v = z3.If(a.inf == -1, z3.RealVal(0), f(a.v))
    return XR(v, a.nan, z3.If(a.inf == 1, 1, 0))


def xlgamma(a):
    a = R(a)
    f = uf('lgamma')
    if a.plain:
        return XR(f(a.v))
    return XR(f(a.v), a.nan, z3.If(a.inf != 0, 1, 0))



# ---- rounding-envelope floats (sound over-approximation of round-to-nearest) --------------------

ENV = {'kmin': -40, 'kmax': 62}


def _half_ulp(e):
    """piecewise-constant half ulp of a double whose exact (pre-rounding) value is e, per binade"""
    a = z3.If(e >= 0, e, -e)
    kmin, kmax = ENV['kmin'], ENV['kmax']
    b = z3.RealVal(2) ** (kmin - 53)                  # below 2^kmin: over-approximated by the bound of binade kmin
    for k in range(kmin, kmax + 1):
        b = z3.If(a >= z3.RealVal(2) ** k, z3.RealVal(2) ** (k - 52 - 1), b)
    b = z3.If(a >= z3.RealVal(2) ** (kmax + 1), a, b)       # beyond the modelled binades: no information (sound)
    return b


def _op_site():
    """(file, line, bytecode offset) of the innermost frame outside the engine: identifies the operation"""
    import sys
    f = sys._getframe(2)
    here = __file__.rsplit('/', 1)[0]
    while f is not None and f.f_code.co_filename.startswith(here):
        f = f.f_back
    if f is None:
        return None
    return (f.f_code.co_filename, f.f_lineno, f.f_lasti)


class EFP(Sym):
    """float64 abstracted as a real number; every rounded operation returns a fresh real within half an ulp
    (per binade) of the exact result. `unsat` under this abstraction is a proof for the IEEE semantics in the
    normal range [2^kmin, 2^(kmax+1)); `sat` is only a candidate and must survive replay."""
    __slots__ = ('v', 'exact')
    dtype = DT64

    def __init__(self, v, exact=False):
        self.v = v
        self.exact = exact          # value known to be an integer below 2^53 or otherwise exactly representable

    @staticmethod
    def rounded(e):
        e = z3.simplify(e)
        if _is_numeral(e):
            # constant folding: round the rational to the nearest double exactly
            fr = Fraction(e.numerator_as_long(), e.denominator_as_long()) if z3.is_rational_value(e) else None
            if fr is not None:
                return EFP(_rv(float(fr)))
        r = z3.Real(fresh_name('fl'))
        d = r - e
        h = _half_ulp(e)
        cons = [d <= h, -d <= h, z3.Implies(e == 0, r == 0), z3.Implies(e > 0, r > 0), z3.Implies(e < 0, r < 0)]
        # rounding is one monotone function: e1 <= e2 => fl(e1) <= fl(e2), against every earlier rounded operation
        # ... instantiated between executions of the same operation site of the code under test
        site = _op_site()
        ops = CTX.notes.setdefault('_efp_ops', {}).setdefault(site, [])
        if ENV.get('monotone', True):
            for (e0, r0) in ops[-4:]:
                cons.append(z3.Implies(e0 <= e, r0 <= r))
                cons.append(z3.Implies(e <= e0, r <= r0))
        ops.append((e, r))
        CTX.pc.append(z3.And(cons))
        return EFP(r)

    def _lift(self, o):
        if isinstance(o, EFP):
            return o.v
        if isinstance(o, SInt):
            return z3.ToReal(o.t)
        if isinstance(o, SBool):
            return z3.If(o.t, z3.RealVal(1), z3.RealVal(0))
        if isinstance(o, (bool, int, _np.integer, _np.bool_)):
            return z3.RealVal(int(o))
        if isinstance(o, (float, _np.floating)):
            return _rv(float(o))
        return None

    def _arith(self, o, f, rev=False):
        l = self._lift(o)
        if l is None:
            return NotImplemented
        return EFP.rounded(f(l, self.v) if rev else f(self.v, l))

    def __add__(self, o): return self._arith(o, operator.add)
    def __radd__(self, o): return self._arith(o, operator.add, True)
    def __sub__(self, o): return self._arith(o, operator.sub)
    def __rsub__(self, o): return self._arith(o, operator.sub, True)
    def __mul__(self, o): return self._arith(o, operator.mul)
    def __rmul__(self, o): return self._arith(o, operator.mul, True)
    def __truediv__(self, o): return self._arith(o, operator.truediv)
    def __rtruediv__(self, o): return self._arith(o, operator.truediv, True)
    def __neg__(self): return EFP(-self.v, self.exact)
    def __pos__(self): return self
    def __abs__(self): return EFP(z3.If(self.v >= 0, self.v, -self.v), self.exact)

    def floor(self):
        return EFP(z3.ToReal(z3.ToInt(self.v)), True)

    def trunc(self):
        return EFP(z3.ToReal(z3.If(self.v >= 0, z3.ToInt(self.v), -z3.ToInt(-self.v))), True)

    def rint(self):
        """round half to even (exact operation on doubles)"""
        fl = z3.ToInt(self.v)
        fr = self.v - z3.ToReal(fl)
        up = z3.Or(fr > z3.RealVal(1) / 2, z3.And(fr == z3.RealVal(1) / 2, fl % 2 != 0))
        return EFP(z3.ToReal(z3.If(up, fl + 1, fl)), True)

    def __floordiv__(self, o):
        if isinstance(o, (int, float)) and o == 1:
            return self.floor()
        return NotImplemented

    def __mod__(self, o):
        if isinstance(o, (int, float)) and o == 1:
            return EFP(self.v - z3.ToReal(z3.ToInt(self.v)))     # fmod(x, 1) is exact in IEEE arithmetic
        return NotImplemented

    def _cmp(self, o, f):
        l = self._lift(o)
        if l is None:
            return NotImplemented
        return SBool(f(self.v, l))

    def __lt__(self, o): return self._cmp(o, operator.lt)
    def __le__(self, o): return self._cmp(o, operator.le)
    def __gt__(self, o): return self._cmp(o, operator.gt)
    def __ge__(self, o): return self._cmp(o, operator.ge)

    def __eq__(self, o):
        r = self._cmp(o, operator.eq)
        return False if r is NotImplemented else r

    def __ne__(self, o):
        r = self._cmp(o, operator.ne)
        return True if r is NotImplemented else r
    __hash__ = None

    def __bool__(self):
        return decide(self.v != 0)

    def __round__(self, n=None):
        if n is None:
            return SInt(z3.ToInt(self.rint().v))
        raise NotModelled('round(x, n)')

    def isnan(self): return False
    def isinf(self): return False

    def astype(self, dt):
        return cast(self, _np.dtype(dt))

    def item(self):
        return self

    def __repr__(self):
        return 'EFP(%s)' % self.v



def _defer(self, o, name, rev):
    """scalar (op) list/tuple/array: numpy converts the sequence to an array and broadcasts"""
    from . import symnp
    if isinstance(o, (list, tuple)) or isinstance(o, symnp.SArr) or isinstance(o, _np.ndarray):
        a = symnp.asarray(o)
        return symnp.binop(a, self, name) if rev else symnp.binop(self, a, name)
    return NotImplemented


_REFLECT = {'lt': 'gt', 'le': 'ge', 'gt': 'lt', 'ge': 'le', 'eq': 'eq', 'ne': 'ne'}


def _install_defer(cls):
    for nm in ('lt', 'le', 'gt', 'ge', 'eq', 'ne'):
        orig = getattr(cls, '__%s__' % nm)
        def mk(orig, nm):
            def f(self, o):
                if isinstance(o, (list, tuple)):
                    return _defer(self, o, _REFLECT[nm], True)
                return orig(self, o)
            return f
        setattr(cls, '__%s__' % nm, mk(orig, nm))
    for nm, r in (('add', False), ('radd', True), ('sub', False), ('rsub', True), ('mul', False), ('rmul', True),
                  ('truediv', False), ('rtruediv', True)):
        orig = getattr(cls, '__%s__' % nm, None)
        if orig is None:
            continue
        def mk2(orig, nm, r):
            base = nm[1:] if r else nm
            def f(self, o):
                if isinstance(o, (list, tuple)):
                    return _defer(self, o, base, r)
                return orig(self, o)
            return f
        setattr(cls, '__%s__' % nm, mk2(orig, nm, r))


for _c in (SInt, SBV, SFP, XR, EFP):
    _install_defer(_c)

# ---- generic helpers ---------------------------------------------------------------------------

def kind(x):
    if isinstance(x, SBool): return 'bool'
    if isinstance(x, SInt): return 'int'
    if isinstance(x, SBV): return 'bv'
    if isinstance(x, SFP): return 'fp'
    if isinstance(x, XR): return 'xr'
    if isinstance(x, EFP): return 'efp'
    if isinstance(x, (bool, _np.bool_)): return 'cbool'
    if isinstance(x, (int, _np.integer)): return 'cint'
    if isinstance(x, (float, _np.floating)): return 'cfloat'
    return 'other'


def sel(c, a, b):
    """if-then-else on scalars; c is a z3 Bool (or SBool / bool)"""
    if isinstance(c, SBool):
        c = c.t
    if isinstance(c, (bool, _np.bool_)):
        return a if c else b
    c = z3.simplify(c)
    if z3.is_true(c):
        return a
    if z3.is_false(c):
        return b
    ka, kb = kind(a), kind(b)
    if not is_sym(a) and not is_sym(b):
        try:
            if type(a) is type(b) and (a == b or (a != a and b != b)):
                return a
        except Exception:
            pass
    ks = {ka, kb}
    if ks <= {'bool', 'cbool'}:
        return SBool(z3.If(c, tb(a), tb(b)))
    if 'xr' in ks or (ks & {'cfloat'} and MODE['float'] == 'xr' and ks <= {'int', 'cint', 'cbool', 'cfloat', 'bool'}):
        a, b = R(a), R(b)
        if a is None or b is None:
            raise NotModelled('sel on %s/%s' % (ka, kb))
        if a.plain and b.plain:
            dom = None
            it = None
            if a.dom is not None and b.dom is not None:
                dom = (min(a.dom[0], b.dom[0]), max(a.dom[1], b.dom[1]))
            if a.it is not None and b.it is not None:
                it = z3.If(c, a.it, b.it)
            return XR(z3.If(c, a.v, b.v), dom=dom, it=it)
        return XR(z3.If(c, a.v, b.v), z3.If(c, a.nan, b.nan), z3.If(c, a.inf, b.inf))
    if 'efp' in ks or (MODE['float'] == 'env' and ks & {'cfloat'}):
        la = EFP(z3.RealVal(0))._lift(a)
        lb = EFP(z3.RealVal(0))._lift(b)
        if la is None or lb is None:
            raise NotModelled('sel on %s/%s' % (ka, kb))
        return EFP(z3.If(c, la, lb))
    if 'fp' in ks or 'cfloat' in ks:
        fa = a if isinstance(a, SFP) else None
        fb = b if isinstance(b, SFP) else None
        ref = fa or fb
        if ref is None:
            # two concrete floats / ints in FP mode
            ref = SFP(fpconst(float(a)), DT64)
            fa = ref
        if fa is None:
            fa = to_fp(a, ref.dtype)
        if fb is None:
            fb = to_fp(b, ref.dtype)
        co = fa._co(fb)
        return SFP(z3.If(c, co[0], co[1]), co[2])
    if ks <= {'int', 'cint', 'cbool', 'bool'} and ('int' in ks or MODE['float'] != 'fp'):
        la = SInt(0)._lift(a)
        lb = SInt(0)._lift(b)
        dom = None
        da = a.dom if isinstance(a, SInt) else ((int(a), int(a)) if _int_const(a) is not None else None)
        db = b.dom if isinstance(b, SInt) else ((int(b), int(b)) if _int_const(b) is not None else None)
        if da is not None and db is not None:
            dom = (min(da[0], db[0]), max(da[1], db[1]))
        return SInt(z3.If(c, la, lb), dom)
    if ks <= {'bv', 'cint', 'cbool', 'bool'}:
        la = SBV(0)._lift(a)
        lb = SBV(0)._lift(b)
        return SBV(z3.If(c, la, lb))
    if a is b:
        return a
    return a if decide(c) else b


def to_fp(x, dt=DT64):
    if isinstance(x, SFP):
        return x if x.dtype == dt else cast(x, dt)
    if isinstance(x, SBV):
        return cast(x._f(), dt)
    if isinstance(x, SBool):
        return to_fp(_as_num(x), dt)
    return SFP(fpconst(float(x), _sort_of(dt)), dt)


def cast(x, dt):
    """numpy astype on a symbolic scalar"""
    k = kind(x)
    if k == 'efp':
        if dt.kind == 'f':
            return x
        if dt.kind in 'iu':
            return SInt(z3.If(x.v >= 0, z3.ToInt(x.v), -z3.ToInt(-x.v)))
        if dt.kind == 'b':
            return x != 0
    if dt.kind == 'f':
        if k == 'fp':
            if x.dtype == dt:
                return x
            return SFP(z3.fpFPToFP(RNE, x.t, _sort_of(dt)), dt)
        if k == 'xr':
            return x
        if k == 'bv':
            return cast(x._f(), dt)
        if k == 'int':
            return int_to_float(x)
        if k == 'bool':
            return cast(_as_num(x), dt)
    if dt.kind in 'iu':
        if k == 'fp':
            t = x.t if x.dtype == DT64 else z3.fpFPToFP(RNE, x.t, F64)
            return SBV(z3.fpToSBV(RTZ, t, BV64))
        if k == 'xr':
            if x.it is not None:
                return SInt(x.it, x.dom)
            if not x.plain:
                # numpy casts nan/inf to INT64_MIN with a warning; harnesses assume finiteness where it matters
                CTX.pc.append(x.fin())
            tr = z3.If(x.v >= 0, z3.ToInt(x.v), -z3.ToInt(-x.v))
            return SInt(tr)
        if k in ('bv', 'int'):
            return x
        if k == 'bool':
            return _as_num(x)
    if dt.kind == 'b':
        if k == 'bool':
            return x
        return x != 0
    if dt.kind == 'O':
        return x
    raise NotModelled('cast %s -> %s' % (k, dt))


def ne0(x):
    """numpy truthiness of a scalar as SBool/bool"""
    if isinstance(x, SBool):
        return x
    if is_sym(x):
        return x != 0
    return bool(x)


# ---- model evaluation --------------------------------------------------------------------------

def fp_from_model(m, t):
    v = m.eval(t, model_completion=True)
    if z3.is_fp(v):
        bv = z3.simplify(z3.fpToIEEEBV(v))
        if z3.is_bv_value(bv):
            n = bv.as_long()
            if bv.size() == 64:
                return struct.unpack('<d', struct.pack('<Q', n))[0]
            return float(struct.unpack('<f', struct.pack('<I', n))[0])
        if z3.is_fprm(v):
            raise ValueError
        # NaN has no unique bit pattern
        if z3.simplify(z3.fpIsNaN(v)).eq(z3.BoolVal(True)):
            return math.nan
        raise ValueError('cannot evaluate %s' % v)
    raise ValueError('not fp: %s' % v)


def int_from_model(m, t):
    v = m.eval(t, model_completion=True)
    if z3.is_bv_value(v):
        return v.as_signed_long()
    if z3.is_int_value(v):
        return v.as_long()
    raise ValueError('cannot evaluate %s' % v)


def real_from_model(m, t):
    v = m.eval(t, model_completion=True)
    if z3.is_rational_value(v):
        return Fraction(v.numerator_as_long(), v.denominator_as_long())
    if z3.is_algebraic_value(v):
        return Fraction(v.approx(30).numerator_as_long(), v.approx(30).denominator_as_long())
    if z3.is_int_value(v):
        return Fraction(v.as_long())
    raise ValueError('cannot evaluate %s' % v)


def bool_from_model(m, t):
    v = m.eval(t, model_completion=True)
    return z3.is_true(v)


def uf_args(terms, name):
    """arguments of every application of the uninterpreted function `name` inside the given z3 terms"""
    seen, out, stack = set(), [], list(terms)
    while stack:
        t = stack.pop()
        if t.get_id() in seen:
            continue
        seen.add(t.get_id())
        if z3.is_app(t):
            if t.decl().name() == name and t.num_args() >= 1:
                out.append([t.arg(i) for i in range(t.num_args())])
            stack.extend(t.children())
    return out


def value_from_model(m, x):
    """symbolic scalar -> plain Python value under model m"""
    if isinstance(x, SBool): return bool_from_model(m, x.t)
    if isinstance(x, (SInt, SBV)): return int_from_model(m, x.t)
    if isinstance(x, SFP): return fp_from_model(m, x.t)
    if isinstance(x, EFP): return real_from_model(m, x.v)
    if isinstance(x, XR):
        if bool_from_model(m, x.nan): return math.nan
        i = int_from_model(m, x.inf)
        if i: return math.inf * i
        return real_from_model(m, x.v)
    if isinstance(x, (list, tuple)):
        return type(x)(value_from_model(m, e) for e in x)
    if isinstance(x, _np.generic):
        return x.item()
    return x
