import z3, time
F=z3.Float64(); rm=z3.RNE(); fv=lambda x: z3.FPVal(float(x),F)
m=z3.BitVec('m',64)
x=z3.fpDiv(rm,z3.fpSignedToFP(rm,m,F),fv(1000.0))          # epoch_time_milli / 1000  (int/int true division is correctly rounded)
ip=z3.fpRoundToIntegral(z3.RTZ(),x); fr=z3.fpSub(rm,x,ip)     # modf
pr=z3.fpMul(rm,fr,fv(1e6)); r=z3.fpRoundToIntegral(z3.RNE(),pr)
# normalisation
ge=z3.fpGEQ(r,fv(1e6)); lt=z3.fpLT(r,fv(0.0))
r2=z3.If(ge,z3.fpSub(rm,r,fv(1e6)),z3.If(lt,z3.fpAdd(rm,r,fv(1e6)),r))
ip2=z3.If(ge,z3.fpAdd(rm,ip,fv(1.0)),z3.If(lt,z3.fpSub(rm,ip,fv(1.0)),ip))
us=z3.fpToSBV(z3.RTZ(),ip2,z3.BitVecSort(64))*1000000+z3.fpToSBV(z3.RTZ(),r2,z3.BitVecSort(64))
s=z3.Solver(); s.set('timeout',600000)
lo,hi=-2208988800000,7258118400000
s.add(m>=lo,m<=hi, us!=m*1000)
t=time.time(); print(s.check(), round(time.time()-t,1))
if str(s.check())=='sat': print(s.model())
