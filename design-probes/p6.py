import z3, time
F=z3.Float64(); rm=z3.RNE()
n=8
x=[z3.FP(f'x{i}',F) for i in range(n)]
s=z3.Solver(); s.set('timeout',600000)
for xi in x: s.add(z3.fpGEQ(xi, z3.FPVal(1e-3,F)), z3.fpLEQ(xi, z3.FPVal(10.0,F)))
seq=x[0]
for xi in x[1:]: seq=z3.fpAdd(rm,seq,xi)
# numpy pairwise for n==8: r[0..7]=x[0..7]; res=((r0+r1)+(r2+r3))+((r4+r5)+(r6+r7))
a=lambda p,q: z3.fpAdd(rm,p,q)
pair=a(a(a(x[0],x[1]),a(x[2],x[3])),a(a(x[4],x[5]),a(x[6],x[7])))
w=z3.fpDiv(rm,seq,pair)
s.add(z3.fpLT(w,z3.FPVal(1.0,F)))
t=time.time(); r=s.check(); print(r, round(time.time()-t,1))
if str(r)=='sat':
    m=s.model(); import numpy as np
    vals=[float(eval(str(m.eval(xi, model_completion=True)).replace('*(2**','*(2.0**'))) if False else m.eval(xi) for xi in x]
    print(vals)
