import z3, time, sys, numpy as np
sys.path.insert(0,'/repo')
from csep.utils.calc import bin1d_vec, cleaner_range
F = z3.Float64(); rm = z3.RNE()
def fv(x): return z3.FPVal(float(x), F)
def encode_idx(p, bins):
    a0 = float(bins[0]); h = float(bins[1]-bins[0])
    eps = np.finfo(np.float64).eps
    a0_tol = abs(a0)*eps; h_tol = a0_tol
    p_tol = z3.fpMul(rm, z3.fpAbs(p), fv(eps))
    num = z3.fpAdd(rm, z3.fpAdd(rm, z3.fpSub(rm, p, fv(a0)), p_tol), fv(a0_tol))
    q = z3.fpDiv(rm, num, fv(h - h_tol))
    return z3.fpRoundToIntegral(z3.RTN(), q)
def run(bins, right_continuous, lo, hi, tmo=120):
    n = len(bins)
    p = z3.FP('p', F)
    idx = encode_idx(p, bins)
    s = z3.Solver(); s.set('timeout', tmo*1000)
    s.add(z3.Not(z3.fpIsNaN(p)), z3.fpGEQ(p, fv(lo)), z3.fpLEQ(p, fv(hi)))
    # spec index k = #{e_k <= p} - 1 as FP number; violation A: exists k: p >= e_k and idx < k
    viol = []
    for k in range(n):
        viol.append(z3.And(z3.fpGEQ(p, fv(bins[k])), z3.fpLT(idx, fv(k))))
    s.add(z3.Or(viol))
    t=time.time(); r = s.check(); dt=time.time()-t
    print('no-downward', n, r, round(dt,2))
    if str(r)=='sat':
        pv = s.model()[p]; print(pv)
    # violation B: p < e_k*(1 - 1e-12)-ish and idx >= k  (upward beyond tolerance)
    s2 = z3.Solver(); s2.set('timeout', tmo*1000)
    s2.add(z3.Not(z3.fpIsNaN(p)), z3.fpGEQ(p, fv(lo)), z3.fpLEQ(p, fv(hi)))
    viol=[]
    for k in range(n):
        ek = float(bins[k]); tol = abs(ek)*1e-12*(k+1) + 1e-300
        viol.append(z3.And(z3.fpLT(p, fv(ek - tol)), z3.fpGEQ(idx, fv(k))))
    s2.add(z3.Or(viol))
    t=time.time(); r = s2.check(); dt=time.time()-t
    print('no-upward-beyond-tol', n, r, round(dt,2))
    if str(r)=='sat':
        pv = s2.model()[p]; print(pv)
bins = cleaner_range(5.95, 8.95, 0.1)
print(bins[:4], len(bins))
run(bins, True, 0.0, 12.0)
