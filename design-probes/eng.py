"""Mini engine prototype: symbolic Int/Bool/Real scalars, re-execution explorer, symbolic re-import loader."""
import builtins, types, sys, time, z3, os

class Ctx:
    def __init__(self, decisions): self.pc=[]; self.decisions=decisions; self.pos=0
CTX=None
STATS={'queries':0,'solver_s':0.0,'paths':0}
def _sat(*fs):
    s=z3.Solver(); s.add(*CTX.pc); s.add(*fs); t=time.time(); r=s.check(); STATS['solver_s']+=time.time()-t; STATS['queries']+=1
    return str(r)=='sat'
def decide(term):
    """fork on a z3 Bool term"""
    term=z3.simplify(term)
    if z3.is_true(term): return True
    if z3.is_false(term): return False
    c=CTX
    if c.pos < len(c.decisions): val,_=c.decisions[c.pos]
    else:
        t=_sat(term); f=_sat(z3.Not(term))
        if t and f: c.decisions.append((True,True)); val=True
        elif t: c.decisions.append((True,False)); val=True
        elif f: c.decisions.append((False,False)); val=False
        else: raise Infeasible()
    c.pos+=1; c.pc.append(term if val else z3.Not(term)); return val
class Infeasible(BaseException): pass
class SBool:
    def __init__(s,t): s.t=t
    def __bool__(s): return decide(s.t)
    def __and__(s,o): return SBool(z3.And(s.t,tb(o)))
    def __or__(s,o): return SBool(z3.Or(s.t,tb(o)))
    def __invert__(s): return SBool(z3.Not(s.t))
    def __eq__(s,o): return SBool(s.t==tb(o))
def tb(x): return x.t if isinstance(x,SBool) else z3.BoolVal(bool(x))
def ti(x):
    if isinstance(x,(SInt,)): return x.t
    if isinstance(x,SBool): return z3.If(x.t,1,0)
    if isinstance(x,bool): return z3.IntVal(int(x))
    if isinstance(x,int): return z3.IntVal(x)
    raise TypeError(type(x))
class SInt:
    def __init__(s,t): s.t=t if not isinstance(t,int) else z3.IntVal(t)
    def __add__(s,o): return SInt(s.t+ti(o))
    __radd__=__add__
    def __sub__(s,o): return SInt(s.t-ti(o))
    def __rsub__(s,o): return SInt(ti(o)-s.t)
    def __mul__(s,o): return SInt(s.t*ti(o))
    __rmul__=__mul__
    def __eq__(s,o):
        try: return SBool(s.t==ti(o))
        except TypeError: return False
    def __ne__(s,o):
        try: return SBool(s.t!=ti(o))
        except TypeError: return True
    def __lt__(s,o): return SBool(s.t<ti(o))
    def __le__(s,o): return SBool(s.t<=ti(o))
    def __gt__(s,o): return SBool(s.t>ti(o))
    def __ge__(s,o): return SBool(s.t>=ti(o))
    def __hash__(s): return hash(s.t)
    def __index__(s): return concretize(s)
    def __repr__(s): return f'SInt({s.t})'
def concretize(si, lo=0, hi=8):
    """fork over the possible values of a small symbolic int"""
    for v in range(lo,hi+1):
        if decide(si.t==v): return v
    raise Infeasible()
def sym_range(*a):
    a=[concretize(x) if isinstance(x,SInt) else x for x in a]; return range(*a)
def sym_int(x):
    if isinstance(x,SInt): return x
    if hasattr(x,'__symint__'): return x.__symint__()
    return int(x)
def sym_len(x):
    if hasattr(x,'__symlen__'): return x.__symlen__()
    return len(x)
def sym_all(it): 
    for v in it:
        if not v: return False
    return True

def explore(run, max_paths=100000):
    global CTX
    out=[]; decisions=[]
    while True:
        CTX=Ctx(decisions)
        try: res=('ok',run())
        except Infeasible: res=None
        except Exception as e: res=('exc',type(e).__name__,str(e))
        if res is not None: out.append((list(CTX.pc),res)); STATS['paths']+=1
        decisions=CTX.decisions
        while decisions and not decisions[-1][1]: decisions.pop()
        if not decisions or len(out)>=max_paths: break
        decisions[-1]=(not decisions[-1][0],False)
    return out

# ---- loader -------------------------------------------------------------------------------------
class Stub(types.ModuleType):
    def __getattr__(self,k):
        if k.startswith('__'): raise AttributeError(k)
        v=Stub(self.__name__+'.'+k); setattr(self,k,v); return v
    def __call__(self,*a,**k): return None
class Loader:
    def __init__(self, root='/repo', models=None, stubs=(), extra_builtins=None):
        self.root=root; self.models=models or {}; self.stubs=set(stubs); self.mods={}
        self.b=dict(vars(builtins)); self.b['__import__']=self._imp
        self.b.update(extra_builtins or {})
    def _imp(self,name,globals=None,locals=None,fromlist=(),level=0):
        top=name.split('.')[0]
        if name in self.models or top in self.models:
            m=self.models.get(name) or self.models[top]
            if fromlist or name in self.models and '.' not in name: return self.models.get(name, m)
            return self.models[top]
        if top in self.stubs or name in self.stubs:
            return Stub(name)
        if top=='csep':
            m=self.load(name)
            if fromlist:
                for fn_ in fromlist:
                    if fn_!='*' and not hasattr(m,fn_) and hasattr(m,'__path__'):
                        try: self.load(name+'.'+fn_)
                        except FileNotFoundError: pass
                return m
            return self.mods['csep']
        return builtins.__import__(name,globals,locals,fromlist,level)
    def _pkg(self,name):
        if name not in self.mods:
            if name=='csep':
                m=types.ModuleType(name); m.__path__=[]; m.__dict__['__builtins__']=self.b; self.mods[name]=m; m.__loaded__=True
            else: self.load(name)
        return self.mods[name]
    def load(self,name):
        if name in self.mods and getattr(self.mods[name],'__loaded__',False): return self.mods[name]
        parts=name.split('.')
        for i in range(1,len(parts)):
            self._pkg('.'.join(parts[:i]))
        path=os.path.join(self.root,*parts)
        if os.path.isdir(path): fn=os.path.join(path,'__init__.py'); ispkg=True
        else: fn=path+'.py'; ispkg=False
        if name in self.stubs or not os.path.exists(fn):
            m=Stub(name); self.mods[name]=m; m.__loaded__=True
        else:
            m=types.ModuleType(name); m.__file__=fn; m.__dict__['__builtins__']=self.b
            if ispkg: m.__path__=[path]
            self.mods[name]=m; m.__loaded__=True
            if not (ispkg and name=='csep'):   # do not execute csep/__init__ (imports everything)
                exec(compile(open(fn).read(),fn,'exec'),m.__dict__)
        if len(parts)>1: setattr(self.mods['.'.join(parts[:-1])],parts[-1],m)
        return m
