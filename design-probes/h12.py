import sys, types, time, z3
sys.path.insert(0,'/repo')
import eng
from eng import *
import csep.core.catalogs as rc
L=int(sys.argv[1]); MAXID=int(sys.argv[2]); header=(sys.argv[3]=='1')

class Cell(str):
    """a csv cell: either '' (placeholder row) or a concrete tag, decided by a symbolic flag"""
    def __new__(cls, text, empty): o=str.__new__(cls,text); o.empty=empty; return o
    def __eq__(s,o):
        if o is None: return False
        if isinstance(o,str) and not isinstance(o,Cell):
            if o=='' : return SBool(s.empty)
            return SBool(z3.And(z3.Not(s.empty), z3.BoolVal(str.__eq__(s,o))))
        return NotImplemented
    __hash__=str.__hash__
    def __bool__(s): return decide(z3.Not(s.empty))
    def lower(s): return s
class IdCell(str):
    def __new__(cls, sint): o=str.__new__(cls,'<id>'); o.sint=sint; return o
    def __symint__(s): return s.sint
def sym_float(x):
    if isinstance(x,Cell):
        if decide(x.empty): raise ValueError('empty')
        return float(str.__str__(x))
    return float(x)
class FakeFile:
    def __enter__(s): return s
    def __exit__(s,*a): return False
yielded=None
class RecCat:
    def __init__(s,data=None,catalog_id=None,**kw): s.data=list(data); s.catalog_id=catalog_id
def build_rows():
    rows=[]; ids=[]; empt=[]
    if header: rows.append(['lon','lat','mag','time_string','depth','catalog_id','event_id'])
    for i in range(L):
        cid=SInt(z3.Int(f'cid{i}')); e=z3.Bool(f'empty{i}')
        ids.append(cid); empt.append(e)
        tag=str(float(i+1))
        rows.append([Cell(tag,e),Cell(tag,e),Cell(tag,e),Cell('',z3.BoolVal(True)) if False else Cell('T'+str(i),e),Cell(tag,e),IdCell(cid),Cell('ev%d'%i,e)])
    return rows,ids,empt
g=dict(rc.__dict__)
rows,ids,empt=build_rows()
class OS:
    class path:
        isfile=staticmethod(lambda f: True); isdir=staticmethod(lambda f: False)
        basename=staticmethod(lambda f: 'x')
class CSV:
    reader=staticmethod(lambda f,delimiter=',': iter(rows))
g.update({'os':OS,'open':lambda *a,**k: FakeFile(),'csv':CSV,'int':sym_int,'float':sym_float,'range':sym_range,
          'strptime_to_utc_epoch': lambda s,format=None: ('epoch',str(s))})
fn=rc.CSEPCatalog.load_ascii_catalogs.__func__
sym_fn=types.FunctionType(fn.__code__,g,fn.__name__,fn.__defaults__,fn.__closure__)
assum=[]
for i in range(L):
    assum += [ids[i].t>=0, ids[i].t<=MAXID]
    if i: assum.append(ids[i].t>=ids[i-1].t)
    # a placeholder row is the only row of its catalog
    for j in range(L):
        if j!=i: assum.append(z3.Implies(empt[i], ids[j].t!=ids[i].t))
def run():
    eng.CTX.pc.extend(assum)
    return [(c.catalog_id,[ev[2] for ev in c.data]) for c in sym_fn(RecCat,'f.csv')]
t=time.time(); paths=explore(run); el=time.time()-t
print('L',L,'paths',len(paths),'time',round(el,1),STATS)
viol=0; exc=0
for pc,res in paths:
    if res[0]=='exc': exc+=1; 
    else:
        out=res[1]
        s=z3.Solver(); s.add(*pc)
        n=len(out)
        conds=[]
        # ids 0..n-1 in order, n = last id + 1
        okids=z3.And([ti(cid)==k for k,(cid,_) in enumerate(out)]+[ids[-1].t+1==n])
        # membership: row i (tag i+1.0 as latitude field ev[2]) is in catalog k iff not empty and cid_i==k ; order preserved
        mem=[]
        for k,(cid,evs) in enumerate(out):
            if evs!=sorted(evs): mem.append(z3.BoolVal(False))
            for i in range(L):
                present=(float(i+1) in evs)
                mem.append(z3.And(z3.Not(empt[i]),ids[i].t==k) if present else z3.Not(z3.And(z3.Not(empt[i]),ids[i].t==k)))
            if len(evs)!=len(set(evs)): mem.append(z3.BoolVal(False))
        s.add(z3.Not(z3.And(okids,*mem)))
        if str(s.check())=='sat': viol+=1; print('VIOL',s.model(),out)
print('violations',viol,'exception paths',exc, [r for _,r in paths if r[0]=='exc'][:3])
