import z3, time, sys
n=int(sys.argv[1])
x=[z3.Real(f'x{i}') for i in range(n)]; v=z3.Real('v')
# sorting network via insertion with min/max
def mn(a,b): return z3.If(a<=b,a,b)
def mx(a,b): return z3.If(a<=b,b,a)
xs=list(x)
for i in range(n):
    for j in range(n-1-i):
        a,b=xs[j],xs[j+1]; xs[j],xs[j+1]=mn(a,b),mx(a,b)
ey=[z3.RealVal(k+1)/n for k in range(n)]
def sel(arr, idx):
    r=arr[-1]
    for k in range(len(arr)-2,-1,-1): r=z3.If(idx==k,arr[k],r)
    return r
left=z3.Sum([z3.If(e<v,1,0) for e in xs]); right=z3.Sum([z3.If(e<=v,1,0) for e in xs])
eyc=ey[::-1]
ge=z3.If(v>xs[-1],0,z3.If(v<xs[0],1,sel(eyc,left)))
le=z3.If(v>xs[-1],1,z3.If(v<xs[0],0,sel(ey,right-1)))
spec_ge=z3.Sum([z3.If(e>=v,1,0) for e in x]); spec_le=z3.Sum([z3.If(e<=v,1,0) for e in x])
s=z3.Solver(); s.set('timeout',300000)
s.add(z3.Or(ge*n!=spec_ge, le*n!=spec_le))
t=time.time(); print(n,s.check(),round(time.time()-t,1))
