import z3, time, sys
n=int(sys.argv[1]); W=3; variant=sys.argv[2]
log = z3.Function('log', z3.RealSort(), z3.RealSort())
lgam = z3.Function('lgam', z3.RealSort(), z3.RealSort())
lam = [z3.Real(f'l{i}') for i in range(n)]
w = [z3.Int(f'w{i}') for i in range(n)]
def imul(wi, term):
    r = z3.RealVal(0)
    for v in range(W, 0, -1): r = z3.If(wi == v, v*term, r)
    return r
def base():
    s = z3.Solver(); s.set('timeout', 120000)
    for i in range(n): s.add(lam[i] > 0, w[i] >= 0, w[i] <= W)
    s.add(lgam(z3.RealVal(1)) == 0)
    return s
nobs = z3.Sum([z3.ToReal(x) for x in w]); nfore = z3.Sum(lam)
if variant=='L':
    s=base()
    code = z3.Sum([z3.If(w[i] != 0, imul(w[i], log(lam[i])), 0) for i in range(n)]) - z3.Sum([z3.If(w[i] != 0, lgam(z3.ToReal(w[i]) + 1), 0) for i in range(n)]) - nfore
    spec = z3.Sum([imul(w[i], log(lam[i])) - lam[i] - lgam(z3.ToReal(w[i]) + 1) for i in range(n)])
    s.add(code != spec)
elif variant=='S':
    s=base(); sc = z3.Real('scale'); s.add(sc*nfore == nobs, nobs>0)
    code = z3.Sum([z3.If(w[i] != 0, imul(w[i], log(lam[i]*sc)) - lgam(z3.ToReal(w[i]) + 1), 0) for i in range(n)]) - nobs
    spec = z3.Sum([imul(w[i], log(lam[i]*sc)) - lam[i]*sc - lgam(z3.ToReal(w[i]) + 1) for i in range(n)])
    s.add(code != spec)
elif variant=='Lmut':
    s=base()
    code = z3.Sum([z3.If(w[i] != 0, imul(w[i], log(lam[i])), 0) for i in range(n)]) - nfore
    spec = z3.Sum([imul(w[i], log(lam[i])) - lam[i] - lgam(z3.ToReal(w[i]) + 1) for i in range(n)])
    s.add(code != spec)
t=time.time(); r=s.check(); print(variant, n, r, round(time.time()-t,2))
if str(r)=='sat': print(s.model())
