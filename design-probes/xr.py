"""Prototype XReal scalars + tiny symnp for _poisson_likelihood_test."""
import z3, math, types, sys
import eng
from eng import SBool, SInt, decide, ti, concretize
UF={n: z3.Function(n, z3.RealSort(), z3.RealSort()) for n in ('log','lgam')}
def R(x):
    if isinstance(x,XR): return x
    if isinstance(x,SInt): return XR(z3.ToReal(x.t))
    if isinstance(x,SBool): return XR(z3.If(x.t,z3.RealVal(1),z3.RealVal(0)))
    if isinstance(x,(int,float)):
        if x!=x: return XR(z3.RealVal(0),nan=z3.BoolVal(True))
        if x in (math.inf,-math.inf): return XR(z3.RealVal(0),inf=z3.IntVal(1 if x>0 else -1))
        from fractions import Fraction; f=Fraction(x); return XR(z3.RealVal(f.numerator)/z3.RealVal(f.denominator))
    raise TypeError(type(x))
class XR:
    """extended real: nan flag, inf in {-1,0,1}, finite value v"""
    def __init__(s,v,nan=None,inf=None): s.v=v; s.nan=nan if nan is not None else z3.BoolVal(False); s.inf=inf if inf is not None else z3.IntVal(0)
    def fin(s): return z3.And(z3.Not(s.nan), s.inf==0)
    def __add__(s,o):
        o=R(o); nan=z3.Or(s.nan,o.nan,z3.And(s.inf!=0,o.inf!=0,s.inf!=o.inf))
        inf=z3.If(s.inf!=0,s.inf,o.inf); return XR(s.v+o.v,nan,inf)
    __radd__=__add__
    def __neg__(s): return XR(-s.v,s.nan,-s.inf)
    def __sub__(s,o): return s+(-R(o))
    def __rsub__(s,o): return R(o)+(-s)
    def __mul__(s,o):
        o=R(o)
        sgn=lambda a: z3.If(a.inf!=0,a.inf,z3.If(a.v>0,1,z3.If(a.v<0,-1,0)))
        anyinf=z3.Or(s.inf!=0,o.inf!=0)
        nan=z3.Or(s.nan,o.nan,z3.And(anyinf,z3.Or(z3.And(s.inf==0,s.v==0),z3.And(o.inf==0,o.v==0))))
        inf=z3.If(anyinf,sgn(s)*sgn(o),0)
        return XR(s.v*o.v,nan,inf)
    __rmul__=__mul__
    def __truediv__(s,o):
        o=R(o)   # prototype: finite/finite nonzero only, division eliminated
        q=z3.Real('q%d'%len(DIVS)); DIVS.append(q*o.v==s.v); eng.CTX.pc.append(q*o.v==s.v); return XR(q,z3.Or(s.nan,o.nan),s.inf)
    def _cmp(s,o,f):
        o=R(o)
        # order on extended reals ignoring nan (nan compares False)
        key=lambda a: (a.inf, a.v)
        lt=z3.Or(s.inf<o.inf, z3.And(s.inf==o.inf, s.inf==0, s.v<o.v)); eq=z3.And(s.inf==o.inf, z3.Or(s.inf!=0, s.v==o.v))
        ok=z3.And(z3.Not(s.nan),z3.Not(o.nan))
        return SBool(z3.And(ok,f(lt,eq)))
    def __lt__(s,o): return s._cmp(o,lambda lt,eq: lt)
    def __le__(s,o): return s._cmp(o,lambda lt,eq: z3.Or(lt,eq))
    def __gt__(s,o): return s._cmp(o,lambda lt,eq: z3.And(z3.Not(lt),z3.Not(eq)))
    def __ge__(s,o): return s._cmp(o,lambda lt,eq: z3.Not(lt))
    def __eq__(s,o): return s._cmp(o,lambda lt,eq: eq)
    def __ne__(s,o): return ~(s==o)
    __hash__=None
DIVS=[]
def xlog(a):
    a=R(a)
    nan=z3.Or(a.nan, z3.And(a.inf==0,a.v<0), a.inf==-1)
    inf=z3.If(a.inf==1,1,z3.If(z3.And(a.inf==0,a.v==0),-1,0))
    return XR(UF['log'](a.v),nan,inf)
def xlgam(a): a=R(a); return XR(UF['lgam'](a.v),a.nan,a.inf)
def small_int_mul(w,lo,hi,term):
    """w (SInt in lo..hi) * XR term, expanded linearly"""
    r=R(0)
    acc=None
    out_v=z3.RealVal(0)
    for v in range(hi,lo-1,-1):
        pv=(R(v)*term)
        out_v=z3.If(w.t==v,pv.v,out_v)
    # nan/inf flags from generic product with concrete-sign reasoning
    g=R(w)*term
    return XR(out_v,g.nan,g.inf)
