import z3, time, sys, numpy as np
sys.path.insert(0,'/repo')
from csep.core import regions
from csep.utils.calc import cleaner_range
F = z3.Float64(); rm = z3.RNE()
fv=lambda x: z3.FPVal(float(x),F)
eps=np.finfo(float).eps
def kern(p,bins):
    a0=float(bins[0]); h=float(bins[1]-bins[0]) if len(bins)>1 else 1.0
    a0t=abs(a0)*eps
    num=z3.fpAdd(rm,z3.fpAdd(rm,z3.fpSub(rm,p,fv(a0)),z3.fpMul(rm,z3.fpAbs(p),fv(eps))),fv(a0t))
    return z3.fpRoundToIntegral(z3.RTN(), z3.fpDiv(rm,num,fv(h-a0t)))
t=time.time(); r=regions.nz_csep_region(); print('nz built',round(time.time()-t,1),len(r.xs),len(r.ys),r.num_nodes)
for name,bins in (('xs',r.xs),('ys',r.ys)):
    n=len(bins); p=z3.FP('p',F); idx=kern(p,bins)
    s=z3.Solver(); s.set('timeout',300000)
    s.add(z3.Not(z3.fpIsNaN(p)), z3.Not(z3.fpIsInf(p)))
    s.add(z3.Or([z3.And(z3.fpGEQ(p,fv(bins[k])), z3.fpLT(idx,fv(k))) for k in range(n)]))
    t=time.time(); print(name,n,s.check(),round(time.time()-t,1))
# 2-D small lattice with a hole
org=np.array([[0.0,0.0],[0.1,0.0],[0.2,0.0],[0.0,0.1],[0.2,0.1],[0.0,0.2],[0.1,0.2],[0.2,0.2]])-np.array([125.4,-33.3])
reg=regions.CartesianGrid2D.from_origins(org,dh=0.1)
lon=z3.FP('lon',F); lat=z3.FP('lat',F)
ix=kern(lon,reg.xs); iy=kern(lat,reg.ys); nx=len(reg.xs); ny=len(reg.ys)
inb=z3.And(z3.fpGEQ(ix,fv(0)),z3.fpLT(ix,fv(nx)),z3.fpGEQ(iy,fv(0)),z3.fpLT(iy,fv(ny)))
got=z3.IntVal(-1)
for i in range(ny):
    for j in range(nx):
        if reg.bbox_mask[i,j]==0:
            got=z3.If(z3.And(inb, z3.fpEQ(ix,fv(j)), z3.fpEQ(iy,fv(i))), int(reg.idx_map[i,j]), got)
orgs=reg.origins(); dh=reg.dh
def tol(b,k): return 4*eps*(abs(b)+(k+2)*abs(b))+1e-300
spec_in=[]
for c,(x0,y0) in enumerate(orgs):
    jx=int(round((x0-reg.xs[0])/dh)); jy=int(round((y0-reg.ys[0])/dh))
    x1=reg.xs[jx+1] if jx+1<nx else x0+dh; y1=reg.ys[jy+1] if jy+1<ny else y0+dh
    core=z3.And(z3.fpGEQ(lon,fv(x0)),z3.fpLT(lon,fv(x1-tol(x1,jx))),z3.fpGEQ(lat,fv(y0)),z3.fpLT(lat,fv(y1-tol(y1,jy))))
    spec_in.append((c,core))
s=z3.Solver(); s.set('timeout',300000)
s.add(z3.Not(z3.fpIsNaN(lon)),z3.Not(z3.fpIsNaN(lat)),z3.Not(z3.fpIsInf(lon)),z3.Not(z3.fpIsInf(lat)))
s.add(z3.Or([z3.And(core, got!=c) for c,core in spec_in]))
t=time.time(); print('2d core->index', s.check(), round(time.time()-t,1))
