import z3, time, sys
# datetime_to_utc_epoch on a whole-millisecond datetime: int(1000.0 * (U/10**6)) with U = 1000*m microseconds
m = z3.BitVec('m', 64)
rm = z3.RNE()
F = z3.Float64()
U = m * 1000
x = z3.fpDiv(rm, z3.fpSignedToFP(rm, U, F), z3.FPVal(1e6, F))
y = z3.fpMul(rm, z3.FPVal(1000.0, F), x)
r = z3.fpToSBV(z3.RTZ(), y, z3.BitVecSort(64))
s = z3.Solver()
lo, hi = -2208988800000, 7258118400000
s.add(m >= lo, m <= hi)
s.add(r != m)
t=time.time()
print(s.check(), time.time()-t)
if str(s.check())=='sat':
    mv = s.model()[m].as_signed_long()
    print(mv, int(1000.0*((mv*1000)/10**6)))
