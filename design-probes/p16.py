import z3, time
F=z3.Float64(); rm=z3.RNE(); fv=lambda x: z3.FPVal(float(x),F)
n=z3.BitVec('n',64); nf=z3.fpSignedToFP(rm,n,F)
lo=z3.fpRoundToIntegral(z3.RTN(), z3.fpSub(rm,nf,fv(1e-6)))
hi=z3.fpRoundToIntegral(z3.RTN(), z3.fpAdd(rm,nf,fv(1e-6)))
for N in (10**5, 10**9, 10**10):
    s=z3.Solver(); s.set('timeout',300000)
    s.add(n>=0,n<=N, z3.Or(z3.Not(z3.fpEQ(lo,z3.fpSub(rm,nf,fv(1.0)))), z3.Not(z3.fpEQ(hi,nf))))
    t=time.time(); r=s.check(); print(N,r,round(time.time()-t,1), s.model() if str(r)=='sat' else '')
