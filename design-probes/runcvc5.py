import cvc5, sys, time
tm = cvc5.TermManager() if hasattr(cvc5,'TermManager') else None
slv = cvc5.Solver(tm) if tm else cvc5.Solver()
slv.setOption('tlimit', sys.argv[2])
p = cvc5.InputParser(slv)
p.setFileInput(cvc5.InputLanguage.SMT_LIB_2_6, sys.argv[1])
sm = p.getSymbolManager()
t=time.time()
while True:
    cmd = p.nextCommand()
    if cmd.isNull(): break
    out = cmd.invoke(slv, sm)
    if out.strip(): print(out.strip())
print(round(time.time()-t,1))
