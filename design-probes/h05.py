import sys, types, time, z3
sys.path.insert(0,'/repo')
import eng, xr
from eng import *
from xr import *
import csep.core.poisson_evaluations as rp, csep.utils.stats as rs
NB=int(sys.argv[1]); W=2; NORM=(sys.argv[2]=='1')
class A:
    """1-D array model"""
    def __init__(s,e): s.e=list(e)
    shape=property(lambda s:(len(s.e),))
    def ravel(s): return s
    def __len__(s): return len(s.e)
    def _b(s,o,f): return A([f(a,b) for a,b in zip(s.e,o.e)]) if isinstance(o,A) else A([f(a,o) for a in s.e])
    def __mul__(s,o): return s._b(o,lambda a,b:a*b)
    def __truediv__(s,o): return s._b(o,lambda a,b:R(a)/b)
    def __add__(s,o): return s._b(o,lambda a,b:a+b)
    def __getitem__(s,k):
        if isinstance(k,tuple) and len(k)==1: k=k[0]
        if isinstance(k,list): return A([s.e[i] for i in k])
        if isinstance(k,SInt): 
            r=s.e[-1]
            raise NotImplementedError
        return s.e[k]
    def fill(s,v): s.e=[R(v) for _ in s.e]
    def sum(s): return NP.sum(s)
class NP:
    class random:
        seed=staticmethod(lambda s: None)
    @staticmethod
    def cumsum(a):
        out=[]; acc=None
        for x in a.e: acc=R(x) if acc is None else acc+x; out.append(acc)
        return A(out)
    @staticmethod
    def sum(a):
        if isinstance(a,list): a=A(a)
        acc=R(0)
        for x in a.e: acc=acc+x
        return acc
    @staticmethod
    def zeros(shape): return A([R(0)]*shape[0])
    @staticmethod
    def log(a): return A([xlog(x) for x in a.e])
    @staticmethod
    def nonzero(a):
        idx=[i for i,x in enumerate(a.e) if (R(x)!=0)]   # forks per element
        return (idx,)
    @staticmethod
    def searchsorted(w,u,side='left'):
        res=[]
        for uu in u.e:
            c=z3.IntVal(0)
            for x in w.e: c=c+z3.If((R(x)<=uu).t if side=='right' else (R(x)<uu).t,1,0)
            res.append(SInt(c))
        return res
    class add:
        @staticmethod
        def at(arr,idx,val):
            n=len(arr.e)
            for i in idx:
                if not ((i>=-n)&(i<n)): raise IndexError('index out of bounds')
                arr.e=[R(x)+R(SBool(z3.Or(i.t==k,i.t==k-n))) for k,x in enumerate(arr.e)]
class SCIPY:
    class special:
        loggamma=staticmethod(lambda a: A([xlgam(x) for x in a.e]))
    class stats: pass
    spatial=None
def sym_int(x):
    if isinstance(x,XR): return x     # prototype: integer-valued by construction
    return int(x)
def le_list(lst,o): return A([x<=o for x in lst])
_oge=XR.__ge__
def _ge(self,o):
    if isinstance(o,list): return A([R(SBool((x<=self).t)) for x in o])
    return _oge(self,o)
XR.__ge__=_ge
g=dict(rp.__dict__); gs=dict(rs.__dict__)
gs.update({'numpy':NP,'scipy':SCIPY})
pj=types.FunctionType(rs.poisson_joint_log_likelihood_ndarray.__code__,gs,'pj')
g.update({'numpy':NP,'scipy':SCIPY,'int':sym_int,'poisson_joint_log_likelihood_ndarray':pj,'range':range})
sim=types.FunctionType(rp._simulate_catalog.__code__,g,'_simulate_catalog',rp._simulate_catalog.__defaults__)
g['_simulate_catalog']=sim
plt=types.FunctionType(rp._poisson_likelihood_test.__code__,g,'plt',rp._poisson_likelihood_test.__defaults__)
lam=[z3.Real(f'l{i}') for i in range(NB)]; w=[z3.Int(f'w{i}') for i in range(NB)]
class ListLE(list):
    def __le__(s,o): return A([R(SBool((x<=o).t)) for x in s])
def run():
    eng.CTX.pc.extend([l>=0 for l in lam]+[z3.And(x>=0,x<=W) for x in w]+[z3.Sum(lam)>0])
    fore=A([XR(l) for l in lam]); obs=A([SInt(x) for x in w])
    # monkeypatch: list of simulated ll must support <= ; num_simulations=0 in this prototype (observed statistic only)
    g['simulated_ll']=None
    U=[[XR(z3.Real(f'u{j}')) for j in range(NB*W)]]
    eng.CTX.pc.extend([z3.And(u.v>=0,u.v<1) for u in U[0]])
    class RN:
        def __getitem__(s,k): 
            i,_=k; n=eng.CTX_nobs
            return A(U[i][:n])
    nobs=eng.concretize(SInt(z3.Sum(w)),0,NB*W); eng.CTX_nobs=nobs
    qs,obs_ll,sims=plt(fore,obs,num_simulations=1,seed=None,random_numbers=RN(),use_observed_counts=True,verbose=False,normalize_likelihood=NORM)
    return qs,obs_ll,sims
# patch: simulated_ll <= obs_ll with empty list / and division by num_simulations=0 -> avoid by wrapping
src_ok=True
t=time.time()
try:
    paths=explore(run)
except Exception as e:
    import traceback; traceback.print_exc(); sys.exit(1)
print('paths',len(paths),round(time.time()-t,1),STATS)

import collections
print(collections.Counter(r[0] if r[0]=='ok' else r[1:] for _,r in paths))
# oracle: obs_ll == sum_i [ w log(lam') - lam' - lgam(w+1) ]
def imul(wi,term):
    r=z3.RealVal(0)
    for v in range(W,0,-1): r=z3.If(wi==v,v*term,r)
    return r
viol=unk=0; ts=0
for pc,res in paths:
    if res[0]!='ok': continue
    qs,obs_ll,sims=res[1]
    s=z3.Solver(); s.set('timeout',60000); s.add(*pc); s.add(*xr.DIVS); s.add(xr.UF['lgam'](z3.RealVal(1))==0)
    nobs=z3.ToReal(z3.Sum(w)); nf=z3.Sum(lam)
    if NORM:
        sc=z3.Real('sc_spec'); s.add(sc*nf==nobs); lamp=[l*sc for l in lam]
    else: lamp=lam
    zero_hit=z3.Or([z3.And(w[i]>0,lam[i]==0) for i in range(NB)])
    spec=z3.Sum([imul(w[i],xr.UF['log'](lamp[i]))-lamp[i]-xr.UF['lgam'](z3.ToReal(w[i])+1) for i in range(NB)])
    good=z3.And(z3.Not(obs_ll.nan), z3.If(zero_hit, obs_ll.inf==-1, z3.And(obs_ll.inf==0, obs_ll.v==spec)))
    s.add(z3.Not(good))
    t0=time.time(); r=str(s.check()); ts+=time.time()-t0
    if r=='sat': viol+=1; print('VIOL',s.model())
    elif r!='unsat': unk+=1
print('violations',viol,'unknown',unk,'assert-solver-s',round(ts,1))

