import z3, time, sys
F=z3.Float64(); rm=z3.RNE(); fv=lambda x: z3.FPVal(float(x),F)
n=int(sys.argv[1])
x=[z3.FP(f'x{i}',F) for i in range(n)]; u=z3.FP('u',F)
s=z3.Solver(); s.set('timeout',600000)
for xi in x: s.add(z3.Or(z3.fpEQ(xi,fv(0.0)), z3.And(z3.fpGEQ(xi,fv(1e-12)), z3.fpLEQ(xi,fv(1e3)))))
s.add(z3.Or([z3.fpGT(xi,fv(0.0)) for xi in x]))
s.add(z3.fpGEQ(u,fv(0.0)), z3.fpLT(u,fv(1.0)))
cs=[x[0]]
for xi in x[1:]: cs.append(z3.fpAdd(rm,cs[-1],xi))
tot=cs[-1]   # n<8: numpy.sum sequential
w=[z3.fpDiv(rm,c,tot) for c in cs]
idx=z3.Sum([z3.If(z3.fpLEQ(wi,u),1,0) for wi in w])   # searchsorted right
# violation: idx out of range or zero-rate bin selected
viol=[idx>=n]
for k in range(n): viol.append(z3.And(idx==k, z3.fpEQ(x[k],fv(0.0))))
s.add(z3.Or(viol))
t=time.time(); print(n,s.check(),round(time.time()-t,1))
