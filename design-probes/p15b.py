import z3, time
m=z3.Int('m'); x=z3.Real('x'); ip=z3.Int('ip'); pr=z3.Real('pr'); r=z3.Int('r')
ab=lambda e: z3.If(e>=0,e,-e)
def halfulp(e):   # exact half-ulp bound by binade, |e| < 2^34
    b=z3.RealVal(2)**(-1074)
    for k in range(-30,34):
        b=z3.If(z3.And(ab(e)>=z3.RealVal(2)**k, ab(e)<z3.RealVal(2)**(k+1)), z3.RealVal(2)**(k-53), b)
    return b
s=z3.Solver(); s.set('timeout',300000)
lo,hi=-2208988800000,7258118400000
ex=z3.ToReal(m)/1000
s.add(m>=lo,m<=hi, ab(x-ex)<=halfulp(ex))
s.add(z3.If(x>=0, z3.And(z3.ToReal(ip)<=x, x<z3.ToReal(ip)+1), z3.And(z3.ToReal(ip)>=x, x>z3.ToReal(ip)-1)))
fr=x-z3.ToReal(ip)
s.add(ab(pr-fr*1000000)<=halfulp(fr*1000000))
s.add(ab(z3.ToReal(r)-pr)<=z3.RealVal(1)/2)
s.add(ip*1000000+r != 1000*m)
t=time.time(); print(s.check(), round(time.time()-t,2))
if str(s.check())=='sat': print(s.model())
