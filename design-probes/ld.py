import sys, time
sys.path.insert(0,'/repo')
import eng
L=eng.Loader(root='/repo', models={}, stubs={'csep.utils.plots','csep.utils.comcat','csep.utils.geonet','csep.utils.iris','matplotlib','cartopy','shapely','pyproj','pandas'})
t=time.time()
for m in ['csep.utils.calc','csep.utils.stats','csep.utils.time_utils','csep.models','csep.core.regions','csep.core.catalogs','csep.core.forecasts','csep.core.poisson_evaluations','csep.core.binomial_evaluations','csep.core.brier_evaluations','csep.core.catalog_evaluations','csep.utils.readers','csep.core.repositories']:
    try: L.load(m); print('ok',m)
    except Exception as e: print('FAIL',m,type(e).__name__,e)
print(round(time.time()-t,2), sorted(L.mods))
C=L.mods['csep.core.catalogs'].CSEPCatalog
import numpy as np
c=C(data=[('a',0,1.0,2.0,3.0,4.5)])
print(c.event_count, c.filter('magnitude > 4.0').event_count, 'real csep imported:', 'csep.core.catalogs' in sys.modules)
