import z3, time, sys
N=int(sys.argv[1])
sqrt=z3.Function('sqrt',z3.RealSort(),z3.RealSort()); tppf=z3.Function('tppf',z3.RealSort(),z3.RealSort(),z3.RealSort())
a=[z3.Real(f'a{i}') for i in range(N)]; b=[z3.Real(f'b{i}') for i in range(N)]   # log rates
NA=z3.Real('NA'); NB=z3.Real('NB'); alpha=z3.Real('alpha')
def ttest(X1,X2,N1,N2):
    d=[x-y for x,y in zip(X1,X2)]
    ig=(z3.Sum(d)-(N1-N2))/N
    first=z3.Sum([x*x for x in d])/(N-1); second=(z3.Sum(d)*z3.Sum(d))/(N*N-N)
    var=first-second; std=sqrt(var)
    t=ig/(std/sqrt(z3.RealVal(N)))
    tc=tppf(1-alpha/2, z3.RealVal(N-1))
    lo=ig-(tc*std/sqrt(z3.RealVal(N))); hi=ig+(tc*std/sqrt(z3.RealVal(N)))
    return ig,t,tc,lo,hi,var,std
r1=ttest(a,b,NA,NB); r2=ttest(b,a,NB,NA)
s=z3.Solver(); s.set('timeout',120000)
s.add(sqrt(z3.RealVal(N))>0, r1[6]>0, r2[6]>0)
s.add(z3.Or(r1[0]!=-r2[0], r1[1]!=-r2[1], r1[3]!=-r2[4], r1[4]!=-r2[3]))
t=time.time(); print(N,s.check(),round(time.time()-t,2))
