"""Prototype: run the REAL csep.utils.calc.bin1d_vec bytecode with `numpy` rebound to a symbolic model."""
import sys, types, time, z3, numpy as real_np
sys.path.insert(0, '/repo')
import csep.utils.calc as calc
F = z3.Float64(); RM = z3.RNE()

class Ctx:
    def __init__(self): self.pc = []; self.decisions = []; self.pos = 0; self.solver_time = 0; self.queries = 0
CTX = None
def feasible(extra):
    s = z3.Solver(); s.add(*CTX.pc); s.add(extra); t = time.time(); r = s.check(); CTX.solver_time += time.time()-t; CTX.queries += 1
    return str(r) == 'sat'
class SBool:
    def __init__(self, t): self.t = t
    def __bool__(self):
        if CTX.pos < len(CTX.decisions):
            d = CTX.decisions[CTX.pos]
        else:
            d = feasible(self.t)            # prefer True if feasible
            if d and not feasible(z3.Not(self.t)): d = True; CTX.decisions.append((True, False))  # no alternative
            elif d: CTX.decisions.append((True, True))                                       # alternative pending
            else: CTX.decisions.append((False, False))
            d = CTX.decisions[CTX.pos]
        CTX.pos += 1
        val = d[0]
        CTX.pc.append(self.t if val else z3.Not(self.t))
        return val
    def __or__(self, o): return SBool(z3.Or(self.t, o.t))
    def __invert__(self): return SBool(z3.Not(self.t))
def lift(x):
    if isinstance(x, SFloat): return x.t
    return z3.FPVal(float(x), F)
class SFloat:
    def __init__(self, t): self.t = t
    def __sub__(s, o): return SFloat(z3.fpSub(RM, s.t, lift(o)))
    def __rsub__(s, o): return SFloat(z3.fpSub(RM, lift(o), s.t))
    def __add__(s, o): return SFloat(z3.fpAdd(RM, s.t, lift(o)))
    __radd__ = __add__
    def __mul__(s, o): return SFloat(z3.fpMul(RM, s.t, lift(o)))
    __rmul__ = __mul__
    def __truediv__(s, o): return SFloat(z3.fpDiv(RM, s.t, lift(o)))
    def __lt__(s, o): return SBool(z3.fpLT(s.t, lift(o)))
    def __ge__(s, o): return SBool(z3.fpGEQ(s.t, lift(o)))
class SArr:
    """1-D array of SFloat with a numpy-like dtype"""
    def __init__(self, elems, dtype=real_np.dtype('float64')): self.e = list(elems); self.dtype = dtype
    def _bin(self, o, f):
        if isinstance(o, SArr): return SArr([f(a, b) for a, b in zip(self.e, o.e)])
        return SArr([f(a, o) for a in self.e])
    def __sub__(s, o): return s._bin(o, lambda a, b: a - b)
    def __add__(s, o): return s._bin(o, lambda a, b: a + b)
    def __mul__(s, o): return s._bin(o, lambda a, b: a * b)
    def __truediv__(s, o): return s._bin(o, lambda a, b: a / b)
    def __lt__(s, o): return BArr([a < o for a in s.e])
    def __ge__(s, o): return BArr([a >= o for a in s.e])
    def __setitem__(s, k, v):
        assert isinstance(k, BArr)
        s.e = [SFloat(z3.If(m.t, lift(v), a.t)) for a, m in zip(s.e, k.e)]
    def astype(s, dt): return SArr(s.e, real_np.dtype(dt))   # values already integral (floor) -> prototype keeps FP term
class BArr:
    def __init__(s, e): s.e = e
    def __or__(s, o): return BArr([a | b for a, b in zip(s.e, o.e)])
class NP:
    floating = real_np.floating; int64 = real_np.int64
    finfo = staticmethod(real_np.finfo)
    @staticmethod
    def asarray(x): return x if isinstance(x, SArr) else real_np.asarray(x)
    @staticmethod
    def abs(x): return SArr([SFloat(z3.fpAbs(a.t)) for a in x.e]) if isinstance(x, SArr) else real_np.abs(x)
    @staticmethod
    def floor(x): return SArr([SFloat(z3.fpRoundToIntegral(z3.RTN(), a.t)) for a in x.e])
def rebind(fn, extra):
    g = dict(fn.__globals__); g.update(extra)
    return types.FunctionType(fn.__code__, g, fn.__name__, fn.__defaults__, fn.__closure__)
g = {'numpy': NP}
sym_get_tol = rebind(calc._get_tolerance, g); g['_get_tolerance'] = sym_get_tol
sym_bin1d = rebind(calc.bin1d_vec, g)

def explore(run):
    global CTX
    paths = []; decisions = []
    while True:
        CTX = Ctx(); CTX.decisions = decisions
        try: res = ('ok', run())
        except Exception as e: res = ('exc', type(e).__name__, str(e))
        paths.append((list(CTX.pc), res, CTX.solver_time, CTX.queries))
        decisions = CTX.decisions
        while decisions and not decisions[-1][1]: decisions.pop()
        if not decisions: break
        decisions[-1] = (not decisions[-1][0], False)
    return paths

bins = calc.cleaner_range(5.95, 8.95, 0.1)
p = z3.FP('p', F)
def run(): return sym_bin1d(SArr([SFloat(p)]), bins, right_continuous=True)
t = time.time(); paths = explore(run); print('paths', len(paths), round(time.time()-t, 2))
for pc, res, st, q in paths:
    print(res[0], len(pc), q)
    out = res[1].e[0].t
    s = z3.Solver(); s.add(*pc); s.add(z3.Not(z3.fpIsNaN(p)), z3.fpGEQ(p, z3.FPVal(0.0, F)), z3.fpLEQ(p, z3.FPVal(12.0, F)))
    s.add(z3.Or([z3.And(z3.fpGEQ(p, z3.FPVal(float(bins[k]), F)), z3.fpLT(out, z3.FPVal(float(k), F))) for k in range(len(bins))]))
    t = time.time(); print(s.check(), round(time.time()-t, 2))
# translator validation: concrete inputs through the same rebinding with real numpy semantics
