import sys, types, time, z3, itertools
sys.path.insert(0,'/repo')
import eng
from eng import *
import csep.core.forecasts as rf
NCAT=int(sys.argv[1]); H=int(sys.argv[2])

class Arr:
    def __init__(s,e): s.e=list(e)
    def __add__(s,o): return Arr([a+b for a,b in zip(s.e,o.e)])
    def __iadd__(s,o): s.e=[a+b for a,b in zip(s.e,o.e)]; return s
    def __truediv__(s,o): return Arr([('div',a,o) for a in s.e])
class NP:
    @staticmethod
    def array(x): return Arr(x.e) if isinstance(x,Arr) else x
    @staticmethod
    def empty(x): return Arr([])
class GF:
    def __init__(s,start,end,data=None,region=None,magnitudes=None,name=None): s.data=data
class Region: magnitudes=[4.0,5.0]
class Cat:
    def __init__(s,i): s.i=i; s.raw=SInt(z3.Int(f'raw{i}')); s.filt=SInt(z3.Int(f'filt{i}')); s.nfilter=0; s.counts=Arr([SInt(z3.Int(f'c{i}_{k}')) for k in range(2)]); s.region=None
    @property
    def event_count(s): return s.filt if s.nfilter else s.raw
    def filter(s,st): s.nfilter+=1; return s
    def filter_spatial(s,r): return s
    def spatial_magnitude_counts(s): return s.counts
g=dict(rf.__dict__); g.update({'numpy':NP,'GriddedForecast':GF,'enumerate':enumerate})
def rebuild(cls):
    ns={}
    for k,v in cls.__dict__.items():
        if isinstance(v,types.FunctionType): ns[k]=types.FunctionType(v.__code__,g,v.__name__,v.__defaults__,v.__closure__)
        elif isinstance(v,property): ns[k]=property(types.FunctionType(v.fget.__code__,g,v.fget.__name__)) 
        elif isinstance(v,classmethod): pass
        else: 
            if not k.startswith('__') : ns[k]=v
    return type('Sym'+cls.__name__,(object,),ns)
SymCF=rebuild(rf.CatalogForecast)
g['super']=lambda *a: types.SimpleNamespace(__init__=lambda: None)   # LoggingMixin init
cfg_mem=z3.Bool('in_memory'); cfg_store=z3.Bool('store'); cfg_filt=z3.Bool('apply_filters')
ops=[z3.Int(f'op{i}') for i in range(H)]
def run():
    cats_master=[Cat(i) for i in range(NCAT)]
    made=[]
    def loader(format=None,filename=None,region=None,name=None):
        fresh=[Cat(i) for i in range(NCAT)]; made.append(fresh)
        return iter(fresh)
    mem=decide(cfg_mem); store=decide(cfg_store); filt=decide(cfg_filt)
    if mem: f=SymCF(catalogs=cats_master,n_cat=NCAT,region=Region(),filters=['m'] if filt else None,apply_filters=filt)
    else: f=SymCF(filename='x',loader=loader,store=store,region=Region(),filters=['m'] if filt else None,apply_filters=filt)
    log=[]
    for i in range(H):
        op=concretize(SInt(ops[i]),0,2)
        if op==0:
            p=[c for c in f]; log.append(('pass',[c.i for c in p],[c.nfilter for c in p],[c.event_count for c in p]))
        elif op==1:
            ec=f.get_event_counts(verbose=False); log.append(('counts',list(ec) if not isinstance(ec,Arr) else ec.e))
        else:
            er=f.get_expected_rates(); log.append(('rates',None if er is None else er.data.e, f.n_cat))
    return log,filt
g['numpy'].array=staticmethod(lambda x: Arr(x.e) if isinstance(x,Arr) else list(x))
t=time.time(); paths=explore(run); print('paths',len(paths),round(time.time()-t,1),STATS)
bad=0
for pc,res in paths:
    if res[0]=='exc': print('EXC',res, z3.simplify(z3.And(pc[:3]))); bad+=1; continue
    log,filt=res[1]
    # concrete-structure oracle (symbolic arithmetic equality would go to the solver; here structure only)
    for ent in log:
        if ent[0]=='pass' and (ent[1]!=list(range(NCAT)) or any(n!=(1 if filt else 0) for n in ent[2])): bad+=1; print('BAD pass',ent,[str(p) for p in pc[:3+H]]); break
        if ent[0]=='counts' and len(ent[1])!=NCAT: bad+=1; print('BAD counts len',len(ent[1]),[str(p) for p in pc[:3+H]]); break
        if ent[0]=='rates' and ent[1] is None: bad+=1; print('BAD rates None',[str(p) for p in pc[:3+H]]); break
print('bad paths',bad)
