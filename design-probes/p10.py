import z3, time, sys, numpy as np
sys.path.insert(0,'/repo')
from csep.core.regions import QuadtreeGrid2D
from fractions import Fraction
def rv(x): 
    f=Fraction(float(x)); return z3.RealVal(f.numerator)/z3.RealVal(f.denominator)
for zoom in (3,4,5):
    q=QuadtreeGrid2D.from_single_resolution(zoom)
    b=q.bounds; n=len(b)
    x=z3.Real('x'); y=z3.Real('y')
    inside=[z3.And(x>=rv(c[0]), y>=rv(c[1]), x<rv(c[2]), y<rv(c[3])) for c in b]
    cnt=z3.Sum([z3.If(i,1,0) for i in inside])
    s=z3.Solver(); s.set('timeout',300000)
    s.add(x>=-180, x<180, y>=rv(b[:,1].min()), y<rv(b[:,3].max()))
    s.add(cnt!=1)
    t=time.time(); r=s.check(); print(zoom,n,r,round(time.time()-t,1))
    if str(r)=='sat': print(s.model())
