import z3, time, sys
F=z3.Float64(); rm=z3.RNE(); fv=lambda x: z3.FPVal(float(x),F)
W=64
A=z3.BitVec('A',W); B=z3.BitVec('B',W); k=z3.BitVec('k',W)
tofp=lambda i: z3.fpSignedToFP(rm,i,F)
m=int(sys.argv[1]); Amax=int(sys.argv[2]); Bmax=int(sys.argv[3]); kmax=int(sys.argv[4])
sc=10.0**m
start=z3.fpDiv(rm,tofp(A),fv(sc)); h=z3.fpDiv(rm,tofp(B),fv(sc))
# scale = max(10**nd, 1/h): with nd = m (A%10 != 0) and 1/h <= 10^m since B >= 1
scale=fv(sc)
S=z3.fpRoundToIntegral(z3.RNE(), z3.fpMul(rm,scale,start))
d=z3.fpMul(rm,scale,h)
nxt=z3.fpAdd(rm,S,d); delta=z3.fpSub(rm,nxt,S)
elem=z3.fpDiv(rm, z3.fpAdd(rm,S,z3.fpMul(rm,tofp(k),delta)), scale)
spec=z3.fpDiv(rm, tofp(A+k*B), fv(sc))
s=z3.Solver(); s.set('timeout',600000)
s.add(A>=-Amax,A<=Amax,B>=1,B<=Bmax,k>=0,k<=kmax)
s.add(z3.Not(z3.fpEQ(elem,spec)))
t=time.time(); r=s.check(); print(r, round(time.time()-t,1))
if str(r)=='sat': print(s.model())
