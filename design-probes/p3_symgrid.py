import z3, time, sys
F = z3.Float64(); rm = z3.RNE()
def fv(x): return z3.FPVal(float(x), F)
eps = 2.0**-52
def kernel(p, a0, h):
    a0_tol = z3.fpMul(rm, z3.fpAbs(a0), fv(eps)); h_tol = a0_tol
    p_tol = z3.fpMul(rm, z3.fpAbs(p), fv(eps))
    num = z3.fpAdd(rm, z3.fpAdd(rm, z3.fpSub(rm, p, a0), p_tol), a0_tol)
    q = z3.fpDiv(rm, num, z3.fpSub(rm, h, h_tol))
    return z3.fpRoundToIntegral(z3.RTN(), q)
def tofp(i): return z3.fpSignedToFP(rm, i, F)
W=32
S = z3.BitVec('S', W); D = z3.BitVec('D', W); k = z3.BitVec('k', W)
scale = float(sys.argv[1]); Smax=int(sys.argv[2]); Dmax=int(sys.argv[3]); kmax=int(sys.argv[4])
e = lambda j: z3.fpDiv(rm, tofp(S + j*D), fv(scale))
a0 = e(0); h = z3.fpSub(rm, e(1), a0); p = e(k)
idx = kernel(p, a0, h)
s = z3.Solver(); s.set('timeout', int(sys.argv[5])*1000)
s.add(S >= -Smax, S <= Smax, D >= 1, D <= Dmax, k >= 0, k <= kmax)
s.add(z3.fpLT(idx, tofp(k)))
t=time.time(); r=s.check(); print(r, round(time.time()-t,1))
if str(r)=='sat': print(s.model())
