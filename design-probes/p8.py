# LRA rounding-envelope probe for decimal_year strict monotonicity at >= 1 ms separation (within one year, fixed leap flag & month via num_days symbolic int)
import z3, time
u = z3.RealVal(2)**-53
cons=[]
cnt=[0]
def rnd(x):
    cnt[0]+=1
    r = z3.Real(f'r{cnt[0]}')
    cons.append(z3.And(r - x <= u*z3.If(x>=0,x,-x), x - r <= u*z3.If(x>=0,x,-x)))
    return r
def dec(year, nd, day, hour, minute, sec, us, ndy):
    a = rnd(hour/24)            # hour / 24.0 (exact real division by const then rounded)
    b = rnd(minute/1440)
    c0 = rnd(us*z3.RealVal('0.000001'))   # us*1e-6 (1e-6 constant's own repr error ignored in probe)
    c1 = rnd(sec + c0)
    c = rnd(c1/86400)
    s1 = nd + (day-1)           # ints exact
    s2 = rnd(s1 + a); s3 = rnd(s2 + b); s4 = rnd(s3 + c)
    f = rnd(s4/ndy)
    return rnd(year + f)
def fields(p):
    year=z3.Int(p+'y'); nd=z3.Int(p+'nd'); day=z3.Int(p+'d'); h=z3.Int(p+'h'); mi=z3.Int(p+'mi'); s=z3.Int(p+'s'); us=z3.Int(p+'us')
    c=[year>=1900, year<=2200, nd>=0, nd<=335, day>=1, day<=31, h>=0,h<=23, mi>=0, mi<=59, s>=0, s<=59, us>=0, us<=999999]
    tot = (((nd+day-1)*24+h)*60+mi)*60*1000000 + s*1000000+us
    return (year,nd,day,h,mi,s,us), c, tot
f1,c1,t1=fields('a'); f2,c2,t2=fields('b')
s=z3.Solver(); s.set('timeout',300000)
s.add(*c1,*c2)
ndy=z3.Int('ndy'); s.add(z3.Or(ndy==365,ndy==366))
s.add(f1[0]==f2[0])             # same year
s.add(t2 - t1 >= 1000)          # >= 1 ms later
s.add(nd_ok:=z3.BoolVal(True))
R=lambda t: tuple(z3.ToReal(x) for x in t)
d1=dec(*R(f1), z3.ToReal(ndy)); d2=dec(*R(f2), z3.ToReal(ndy))
s.add(*cons)
s.add(d2 <= d1)
t=time.time(); print(s.check(), round(time.time()-t,1))
