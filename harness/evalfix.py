"""Fixtures shared by the evaluation harnesses (C05, C06, C07, C08, C16, C20): a real (twin) GriddedForecast
over symbolic rates on a small concrete region, and an observed-catalog stub that returns symbolic gridded counts
(the gridding itself is C03's subject)."""
import numpy as np
import z3

from symx import core, symnp
from symx.core import XR, SInt
from . import common as C


def small_region(L, n_cells):
    """n_cells cells in a row (concrete), built by the re-imported region code"""
    regions = L.load('csep.core.regions')
    models = L.load('csep.models')
    lat = C.lattice('row%d' % n_cells, n_cells, 1, 0.5, (10.0, 40.0)) if n_cells > 1 else C.lattice('one', 1, 1, 0.5, (10.0, 40.0))
    return C.build_region(regions, models, lat, np_mod=symnp), lat


MAGS = [5.0, 6.0, 7.0]


def sym_rates(n_cells, n_mags, prefix='l', allow_zero=True):
    """symbolic rates >= 0 (zeros allowed) with a positive total; returns (2-D list of z3 Reals, constraints)"""
    lam = [[z3.Real('%s_%d_%d' % (prefix, i, k)) for k in range(n_mags)] for i in range(n_cells)]
    flat = [x for row in lam for x in row]
    cons = [(x >= 0) if allow_zero else (x > 0) for x in flat] + [z3.Sum(flat) > 0]
    return lam, cons


def sym_counts(n_cells, n_mags, prefix='w', cmax=2, total_max=None):
    w = [[z3.Int('%s_%d_%d' % (prefix, i, k)) for k in range(n_mags)] for i in range(n_cells)]
    flat = [x for row in w for x in row]
    cons = [z3.And(x >= 0, x <= cmax) for x in flat]
    if total_max is not None:
        cons.append(z3.Sum(flat) <= total_max)
    return w, cons


def rate_array(lam):
    a = np.empty((len(lam), len(lam[0])), dtype=object)
    for i, row in enumerate(lam):
        for k, x in enumerate(row):
            a[i, k] = XR(x)
    return symnp.SArr(a, core.DT64)


def count_array(w, cmax=2):
    """float64 array holding integral counts (what numpy.zeros + add.at produce)"""
    a = np.empty((len(w), len(w[0])), dtype=object)
    for i, row in enumerate(w):
        for k, x in enumerate(row):
            a[i, k] = core.R(SInt(x, dom=(0, cmax)))
    return symnp.SArr(a, core.DT64)


def mk_forecast(L, lam, name='fore', start=None, end=None):
    forecasts = L.load('csep.core.forecasts')
    reg, lat = small_region(L, len(lam))
    mags = symnp.asarray(np.array(MAGS[:len(lam[0])]))
    f = forecasts.GriddedForecast(start_time=start, end_time=end, data=rate_array(lam), region=reg, magnitudes=mags, name=name)
    return f


class ObsStub:
    """observed catalog reduced to what the evaluation functions ask of it"""

    def __init__(self, L, w, region, cmax=2, name='obs'):
        self._c = count_array(w, cmax)
        self.region = region
        self.name = name
        self._base = L.load('csep.core.catalogs').AbstractBaseCatalog

    def spatial_magnitude_counts(self, mag_bins=None, tol=None):
        return self._c.copy()

    def spatial_counts(self):
        return symnp.sum(self._c, axis=1)

    def magnitude_counts(self, mag_bins=None, tol=None, retbins=False):
        return symnp.sum(self._c, axis=0)

    @property
    def event_count(self):
        t = symnp.sum(self._c)
        return core.cast(t, core.DTI) if isinstance(t, XR) else int(t)

    def get_number_of_events(self):
        return self.event_count

    def __str__(self):
        return 'ObsStub'


LGAMMA_AXIOMS = None


def axioms():
    """the only facts about the uninterpreted functions that the evaluation identities may use"""
    lg = core.uf('lgamma')
    return [lg(z3.RealVal(1)) == 0, lg(z3.RealVal(2)) == 0]


def xr_eq(a, b_v, b_inf=None):
    """z3: extended real `a` (XR or concrete) is the finite value b_v (or has infinity flag b_inf)"""
    a = core.R(a)
    if b_inf is not None:
        return z3.And(z3.Not(a.nan), a.inf == b_inf)
    return z3.And(z3.Not(a.nan), a.inf == 0, a.v == b_v)


def imul(w, term, cmax):
    """w * term for a symbolic integer 0..cmax (linear ite-chain)"""
    r = z3.RealVal(0)
    for v in range(cmax, 0, -1):
        r = z3.If(w == v, v * term, r)
    return r


def model_rates(mod, lam):
    out = []
    for row in lam:
        out.append([float(core.real_from_model(mod, x)) for x in row])
    return out


def model_counts(mod, w):
    return [[core.int_from_model(mod, x) for x in row] for row in w]
