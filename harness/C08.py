"""C08 -- paired T- and W-tests follow Rhoades et al. (2011) and are antisymmetric (DESIGN 4/C08)."""
import math

import numpy as np
import z3

from symx import core, symnp
from symx.core import XR, SInt
from symx.harness import Obligation
from . import common as C
from . import evalfix as F

ID = 'C08'
KNOWN_KEYS = {}
META = {
    'functions': ['csep/core/poisson_evaluations.py _t_test_ndarray', 'csep/core/poisson_evaluations.py paired_t_test',
                  'csep/core/poisson_evaluations.py _w_test_ndarray', 'csep/core/poisson_evaluations.py w_test',
                  'csep/core/binomial_evaluations.py matrix_binary_t_test', 'csep/core/binomial_evaluations.py binary_paired_t_test',
                  'csep/core/forecasts.py GriddedForecast.target_event_rates / get_rates'],
    'theory': 'reals + uninterpreted log, sqrt, Student-t quantile, normal survival function; ranks re-stated over comparisons; '
              'API presence proxied from the installed scipy/numpy (a missing attribute raises as it does for users)',
    'bounds': {'quick': 'two forecasts on 2 cells x 2 magnitude bins with positive symbolic rates; N = 2, 3 observed events with '
                        'symbolic cell/bin (repeats and ties arise); alpha symbolic in (0,1); scale on/off',
               'thorough': 'N = 4'},
    'outside': ['accuracy of the Student-t / normal quantiles (uninterpreted)', 'N > 4',
                'spatial / magnitude lookup of the events (abstract region; C01, C11)'],
    'stubs': ['numpy.log, numpy.sqrt, scipy.stats.t.ppf, scipy.stats.norm.sf: uninterpreted (sqrt(x)^2 = x, sf(|z|) in [0, 1/2])',
              'region: events carry their (symbolic) cell and magnitude-bin index'],
    'assumptions': ['rates > 0', '>= 2 events inside the region'],
}


# ---- replay -------------------------------------------------------------------------------------------------

def _real_inputs(cex):
    from . import C05
    fa, cat = C05._real_setup(cex['ra'], cex['counts'])
    fb, _ = C05._real_setup(cex['rb'], cex['counts'])
    import datetime
    for f in (fa, fb):
        f.start_time = datetime.datetime(2010, 1, 1)
        f.end_time = datetime.datetime(2010, 1, 11)
    return fa, fb, cat


def _ref_t(ra, rb, counts, alpha, scale):
    import scipy.stats
    A, B, W = np.array(ra, float), np.array(rb, float), np.array(counts)
    if scale:
        A, B = A / 10.0, B / 10.0
    xs = []
    for i in range(W.shape[0]):
        for k in range(W.shape[1]):
            xs += [math.log(A[i, k]) - math.log(B[i, k])] * int(W[i, k])
    N = len(xs)
    ig = (sum(xs) - (A.sum() - B.sum())) / N
    var = sum(x * x for x in xs) / (N - 1) - sum(xs) ** 2 / (N * N - N)
    sd = math.sqrt(var) if var >= 0 else float('nan')
    t = ig / (sd / math.sqrt(N)) if sd else (math.inf if ig > 0 else (-math.inf if ig < 0 else math.nan))
    tc = scipy.stats.t.ppf(1 - alpha / 2, N - 1)
    return ig, t, tc, ig - tc * sd / math.sqrt(N), ig + tc * sd / math.sqrt(N)


def _close(a, b):
    if any(isinstance(x, float) and (math.isnan(x) or math.isinf(x)) for x in (a, b)):
        return (math.isnan(a) and math.isnan(b)) or a == b
    return abs(a - b) <= 1e-7 * max(1.0, abs(b))


def _replay_nd(cex):
    import scipy.stats
    from csep.core import poisson_evaluations as pe
    if cex['fn'] == 'tnd':
        a, b = np.array(cex['a'], float), np.array(cex['b'], float)
        N = len(a)
        n1, n2, alpha = cex['n1'], cex['n2'], cex['alpha']
        with np.errstate(all='ignore'):
            r = pe._t_test_ndarray(a, b, N, n1, n2, alpha=alpha)
        xs = [math.log(x) - math.log(y) for x, y in zip(a, b)]
        ig = (sum(xs) - (n1 - n2)) / N
        var = sum(x * x for x in xs) / (N - 1) - sum(xs) ** 2 / (N * N - N)
        if var <= 1e-18:
            return False, 'degenerate variance: t statistic undefined'
        sd = math.sqrt(var)
        tc = scipy.stats.t.ppf(1 - alpha / 2, N - 1)
        want = {'information_gain': ig, 't_statistic': ig / (sd / math.sqrt(N)), 't_critical': tc,
                'ig_lower': ig - tc * sd / math.sqrt(N), 'ig_upper': ig + tc * sd / math.sqrt(N)}
        msgs = ['%s = %r, Rhoades et al. formula gives %r' % (k, float(r[k]), w) for k, w in want.items() if not _close(float(r[k]), w)]
        return bool(msgs), ('_t_test_ndarray(%r, %r, N=%d, %r, %r, alpha=%r): ' % (a.tolist(), b.tolist(), N, n1, n2, alpha)) + ('; '.join(msgs) or 'agrees')
    x, m = np.array(cex['x'], float), cex['m']
    with np.errstate(all='ignore'):
        r = pe._w_test_ndarray(x, m)
    d = x - m
    d = d[d != 0]
    c = len(d)
    rk = scipy.stats.rankdata(np.abs(d))
    T = min(rk[d > 0].sum(), rk[d < 0].sum())
    _, cnt = np.unique(rk, return_counts=True)
    se = math.sqrt((c * (c + 1) * (2 * c + 1) - 0.5 * sum(t * (t * t - 1) for t in cnt if t > 1)) / 24)
    if se == 0:
        return False, 'degenerate sample'
    z = (T - c * (c + 1) / 4) / se
    p = 2 * scipy.stats.norm.sf(abs(z))
    bad = not (_close(float(r['z_statistic']), z) and _close(float(r['probability']), p))
    return bad, '_w_test_ndarray(%r, %r) = z %r p %r; signed-rank definition gives z %r p %r' % (x.tolist(), m, float(r['z_statistic']), float(r['probability']), z, p)


def replay(cex):
    C.real_csep()
    from csep.core import poisson_evaluations as pe, binomial_evaluations as be
    if cex['fn'] in ('tnd', 'wnd'):
        return _replay_nd(cex)
    fa, fb, cat = _real_inputs(cex)
    fn = cex['fn']
    alpha, scale = cex.get('alpha', 0.05), bool(cex.get('scale', False))
    try:
        with np.errstate(all='ignore'):
            if fn == 'paired_t_test':
                r1 = pe.paired_t_test(fa, fb, cat, alpha=alpha, scale=scale)
                r2 = pe.paired_t_test(fb, fa, cat, alpha=alpha, scale=scale)
            elif fn == 'w_test':
                r1 = pe.w_test(fa, fb, cat, scale=scale)
                r2 = pe.w_test(fb, fa, cat, scale=scale)
            else:
                r1 = be.binary_paired_t_test(fa, fb, cat, alpha=alpha, scale=scale)
                r2 = be.binary_paired_t_test(fb, fa, cat, alpha=alpha, scale=scale)
    except Exception as e:
        return True, '%s raised %s: %s (rates A %r, rates B %r, counts %r)' % (fn, type(e).__name__, e, cex['ra'], cex['rb'], cex['counts'])
    msgs = []
    if fn == 'paired_t_test':
        ig, t, tc, lo, hi = _ref_t(cex['ra'], cex['rb'], cex['counts'], alpha, scale)
        got = (float(r1.observed_statistic), float(r1.quantile[0]), float(r1.quantile[1]), float(r1.test_distribution[0]), float(r1.test_distribution[1]))
        for nm, g, w in zip(('information gain', 't', 't critical', 'lower', 'upper'), got, (ig, t, tc, lo, hi)):
            if not _close(g, w):
                msgs.append('%s %r, Rhoades et al. formula gives %r' % (nm, g, w))
        if not (_close(float(r2.observed_statistic), -got[0]) and _close(float(r2.quantile[0]), -got[1])
                and _close(float(r2.test_distribution[0]), -got[4]) and _close(float(r2.test_distribution[1]), -got[3])):
            msgs.append('swapping the forecasts does not negate gain/statistic and mirror the interval')
    elif fn == 'w_test':
        z1, p1, z2, p2 = float(r1.observed_statistic), float(r1.quantile), float(r2.observed_statistic), float(r2.quantile)
        if not (0 <= p1 <= 1) and not math.isnan(p1):
            msgs.append('p = %r outside [0,1]' % p1)
        if not (_close(z1, z2) and _close(p1, p2)):
            msgs.append('W-test changes under swapping: z %r vs %r, p %r vs %r' % (z1, z2, p1, p2))
    return bool(msgs), '; '.join(msgs) or '%s agrees with the definitions' % fn


# ---- jobs ----------------------------------------------------------------------------------------------------

def jobs(tier, seed):
    out = []
    Ns = (2, 3) if tier == 'quick' else (2, 3, 4)
    for N in Ns:
        out.append({'name': '_t_test_ndarray N=%d' % N, 'kind': 'tnd', 'N': N, 'cost': N})
        out.append({'name': '_w_test_ndarray N=%d' % N, 'kind': 'wnd', 'N': N, 'cost': 5 * N})
    for fn in ('paired_t_test', 'w_test', 'binary_paired_t_test'):
        for scale in (False, True):
            out.append({'name': 'public %s scale=%s N=2' % (fn, scale), 'kind': 'public', 'fn': fn, 'scale': scale, 'N': 2, 'cost': 10})
    for j in out:
        j['tier'] = tier
        j['wall'] = 700 if tier == 'quick' else 3000
    return out


def run_job(job):
    snap = C.stats_snapshot()
    core.MODE['float'] = 'xr'
    core.OPT['lazy_bounds'] = True
    core.OPT['symbolic_transc'] = True
    res = globals()['_job_' + job['kind']](job)
    res.update(C.stats_delta(snap))
    return res


def _uf_axioms(terms_sqrt=(), terms_sf=(), results=()):
    """sqrt(x) >= 0 and sqrt(x)^2 = x for x >= 0, sf(|z|) in [0, 1/2]: instantiated for the given terms and for every
    sqrt / sf application that occurs in the code's own results"""
    sq, sf = core.uf('sqrt'), core.uf('Nsf')
    ax = []
    ts = list(terms_sqrt) + [a[0] for a in core.uf_args(list(results), 'sqrt')]
    for t in ts:
        ax.append(z3.Implies(t >= 0, z3.And(sq(t) >= 0, sq(t) * sq(t) == t)))
        ax.append(z3.Implies(t > 0, sq(t) > 0))
    for t in list(terms_sf) + [a[0] for a in core.uf_args(list(results), 'Nsf')]:
        ax.append(z3.Implies(t >= 0, z3.And(sf(t) >= 0, sf(t) <= z3.RealVal(1) / 2)))
    return ax


def _res_terms(*dicts):
    out = []
    for d in dicts:
        for v in d.values():
            r = core.R(v)
            if r is not None:
                out.append(r.v)
    return out


def _job_tnd(job):
    L = C.twin()
    pe = L.load('csep.core.poisson_evaluations')
    N = job['N']
    a = [z3.Real('a%d' % i) for i in range(N)]
    b = [z3.Real('b%d' % i) for i in range(N)]
    n1, n2, al = z3.Real('n1'), z3.Real('n2'), z3.Real('alpha')
    log, sq, tp = core.uf('log'), core.uf('sqrt'), core.uf('Tppf', 2)

    def run():
        for x in a + b:
            core.assume(x > 0)
        core.assume(z3.And(n1 > 0, n2 > 0, al > 0, al < 1))
        A = symnp.asarray([XR(x) for x in a])
        B = symnp.asarray([XR(x) for x in b])
        r1 = pe._t_test_ndarray(A, B, N, XR(n1), XR(n2), alpha=XR(al))
        r2 = pe._t_test_ndarray(B, A, N, XR(n2), XR(n1), alpha=XR(al))
        r3 = pe._t_test_ndarray(A, A, N, XR(n1), XR(n1), alpha=XR(al))
        return r1, r2, r3
    paths, _ = core.explore(run)
    xs = [log(x) - log(y) for x, y in zip(a, b)]
    S = z3.Sum(xs)
    ig = (S - (n1 - n2)) / N
    var = z3.Sum([x * x for x in xs]) / (N - 1) - S * S / (N * N - N)

    def cexf(mod, P):
        f = lambda t: float(core.real_from_model(mod, t))
        return {'fn': 'tnd', 'a': [f(x) for x in a], 'b': [f(x) for x in b], 'n1': f(n1), 'n2': f(n2), 'alpha': f(al)}

    def vio(P):
        r1, r2, r3 = P.value
        g = lambda r, k: core.R(r[k])
        v1 = g(r1, 'information_gain')
        out = [('information gain == [sum(log a - log b) - (N_A - N_B)]/N', z3.Not(z3.And(v1.fin(), v1.v == ig)))]
        out.append(('swap negates the gain; self-comparison has zero gain',
                    z3.Not(z3.And(g(r2, 'information_gain').v == -v1.v, g(r3, 'information_gain').v == 0))))
        # t statistic and interval through the paper's formulas (sqrt uninterpreted with sqrt(x)^2 = x)
        sd = sq(var)
        rootN = sq(z3.RealVal(N))
        tc = tp(1 - al / 2, z3.RealVal(N - 1))
        t1 = g(r1, 't_statistic')
        ax = _uf_axioms([var, z3.RealVal(N)], results=_res_terms(r1, r2) + [c for c in P.pc])
        ok_t = z3.Implies(z3.And(var > 0), z3.And(t1.v * sd == ig * rootN,
                                                    g(r1, 't_critical').v == tc,
                                                    g(r1, 'ig_lower').v * rootN == ig * rootN - tc * sd,
                                                    g(r1, 'ig_upper').v * rootN == ig * rootN + tc * sd))
        out.append(('t statistic, critical value and interval as in Rhoades et al. (2011)', z3.And(*ax, z3.Not(ok_t))))
        ok_sw = z3.Implies(var > 0, z3.And(g(r2, 't_statistic').v == -t1.v, g(r2, 'ig_lower').v == -g(r1, 'ig_upper').v,
                                           g(r2, 'ig_upper').v == -g(r1, 'ig_lower').v))
        out.append(('swap negates t and mirrors the interval', z3.And(*ax, z3.Not(ok_sw))))
        return out
    obs = C.path_obligations(paths, vio, cexf, replay, '_t_test_ndarray', 120, candidate_only=True)
    return {'obligations': [o.as_dict() for o in obs], 'samples': [{'N': N, 'rates': 'symbolic positive', 'alpha': 'symbolic'}]}


def _job_wnd(job):
    L = C.twin()
    pe = L.load('csep.core.poisson_evaluations')
    N = job['N']
    xs = [z3.Real('x%d' % i) for i in range(N)]
    m = z3.Real('m')
    sq, sf = core.uf('sqrt'), core.uf('Nsf')

    def run():
        core.assume(z3.Or([x != m for x in xs]))          # at least one difference distinct from the null median
        X = symnp.asarray([XR(x) for x in xs])
        r1 = pe._w_test_ndarray(X, XR(m))
        r2 = pe._w_test_ndarray(-X, -XR(m))
        return r1, r2
    paths, trunc = core.explore(run, max_paths=4000)

    def vio(P):
        r1, r2 = P.value
        d = [x - m for x in xs]
        ab = [z3.If(v >= 0, v, -v) for v in d]
        nz = [v != 0 for v in d]
        cnt = z3.Sum([z3.If(c, 1, 0) for c in nz])
        # ranks among the non-zero differences; tie group sizes
        tie = [z3.Sum([z3.If(z3.And(nz[j], ab[j] == ab[i]), 1, 0) for j in range(N)]) for i in range(N)]
        less = [z3.Sum([z3.If(z3.And(nz[j], ab[j] < ab[i]), 1, 0) for j in range(N)]) for i in range(N)]
        rank = [z3.ToReal(less[i]) + (z3.ToReal(tie[i]) + 1) / 2 for i in range(N)]
        rp = z3.Sum([z3.If(z3.And(nz[i], d[i] > 0), rank[i], 0) for i in range(N)])
        rm = z3.Sum([z3.If(z3.And(nz[i], d[i] < 0), rank[i], 0) for i in range(N)])
        T = z3.If(rp <= rm, rp, rm)
        c = z3.ToReal(cnt)
        mn = c * (c + 1) / 4
        se2 = (c * (c + 1) * (2 * c + 1) - z3.Sum([z3.If(nz[i], z3.ToReal(tie[i]) * z3.ToReal(tie[i]) - 1, 0) for i in range(N)]) / 2) / 24
        z1 = core.R(r1['z_statistic'])
        p1 = core.R(r1['probability'])
        z2 = core.R(r2['z_statistic'])
        p2 = core.R(r2['probability'])
        absz = z3.If(z1.v >= 0, z1.v, -z1.v)
        ax = _uf_axioms([se2], [absz], results=_res_terms(r1, r2) + [c for c in P.pc])
        ok = z3.Implies(se2 > 0, z3.And(z1.v * sq(se2) == T - mn, p1.v == 2 * sf(absz), p1.v >= 0, p1.v <= 1,
                                        z2.v == z1.v, p2.v == p1.v))
        return [('Wilcoxon signed-rank z with tie correction, p = 2 sf(|z|) in [0,1], invariant under swap', z3.And(*ax, z3.Not(ok)))]
    obs = C.path_obligations(paths, vio, lambda mod, P: {'fn': 'wnd', 'x': [float(core.real_from_model(mod, x)) for x in xs],
                                                        'm': float(core.real_from_model(mod, m))},
                             replay, '_w_test_ndarray', 120, candidate_only=True)
    from .C16 import _aggregate
    obs = _aggregate(obs, paths, trunc)
    return {'obligations': [o.as_dict() for o in obs], 'samples': [{'N': N, 'differences': 'symbolic reals (ties, zeros and signs arise)', 'paths': len(paths)}]}


def _job_public(job):
    """definedness + formulas through the public entry points, events with symbolic cell / magnitude-bin index"""
    L = C.twin()
    fn, N, scale = job['fn'], job['N'], job['scale']
    regions = L.load('csep.core.regions')
    forecasts = L.load('csep.core.forecasts')
    cats = L.load('csep.core.catalogs')
    sdt = __import__('datetime')
    mod_ = L.load('csep.core.binomial_evaluations' if fn.startswith('binary') else 'csep.core.poisson_evaluations')
    nc, nm = 2, 2
    la, ca = F.sym_rates(nc, nm, 'a', allow_zero=False)
    lb, cb = F.sym_rates(nc, nm, 'b', allow_zero=False)
    cell = [z3.Int('cell%d' % i) for i in range(N)]
    mbin = [z3.Int('mbin%d' % i) for i in range(N)]
    al = z3.Real('alpha')

    class AbsRegion(regions.CartesianGrid2D):
        def __init__(self, n):
            self.polygons = [None] * n
            self.magnitudes = None
            self.name = 'abstract'

        def get_index_of(self, lons, lats):
            return lons          # the stub catalog's "longitudes" are the symbolic cell indices

    class Obs(cats.AbstractBaseCatalog):
        def __init__(self):
            self.name = 'obs'
            self.region = None

        def get_longitudes(self): return symnp.asarray([SInt(c, dom=(0, nc - 1)) for c in cell])
        def get_latitudes(self): return symnp.asarray([SInt(c, dom=(0, nc - 1)) for c in cell])
        def get_magnitudes(self): return symnp.asarray([SInt(k, dom=(0, nm - 1)) for k in mbin])
        def get_number_of_events(self): return N

        def spatial_magnitude_counts(self, mag_bins=None, tol=None):
            out = symnp.zeros((nc, nm))
            for c, k in zip(cell, mbin):
                out[(SInt(c, dom=(0, nc - 1)), SInt(k, dom=(0, nm - 1)))] += 1
            return out

    def mkf(lam, name):
        f = forecasts.GriddedForecast(start_time=sdt.datetime(2010, 1, 1), end_time=sdt.datetime(2010, 1, 11),
                                      data=F.rate_array(lam), region=AbsRegion(nc), magnitudes=symnp.asarray(np.array(F.MAGS[:nm])), name=name)
        f.get_magnitude_index = lambda mags, tol=None: mags        # abstract lookup: magnitudes are bin indices
        return f

    def run():
        for c in ca + cb:
            core.assume(c)
        for c, k in zip(cell, mbin):
            core.assume(z3.And(c >= 0, c < nc, k >= 0, k < nm))
        core.assume(z3.And(al > 0, al < 1))
        fa, fb = mkf(la, 'A'), mkf(lb, 'B')
        obs = Obs()
        if fn == 'w_test':
            # precondition of the property: at least one difference distinct from the null median -- left to the
            # explorer: if all differences coincide the normal approximation divides by zero (not a defined case)
            r = mod_.w_test(fa, fb, obs, scale=scale)
        else:
            r = getattr(mod_, fn)(fa, fb, obs, alpha=XR(al), scale=scale)
        return r.observed_statistic, r.quantile, r.test_distribution
    paths, trunc = core.explore(run, max_paths=3000)
    log = core.uf('log')
    dv = 10 if scale else 1

    def cexf(mod, P):
        counts = [[0] * nm for _ in range(nc)]
        for c, k in zip(cell, mbin):
            counts[core.int_from_model(mod, c)][core.int_from_model(mod, k)] += 1
        return {'fn': fn, 'ra': F.model_rates(mod, la), 'rb': F.model_rates(mod, lb), 'counts': counts,
                'alpha': float(core.real_from_model(mod, al)), 'scale': scale}

    def rate_at(lam, c, k):
        t = None
        for i in range(nc):
            for j in range(nm):
                t = lam[i][j] if t is None else z3.If(z3.And(c == i, k == j), lam[i][j], t)
        return t

    def vio(P):
        stat, q, dist = P.value
        if fn == 'paired_t_test':
            xs = [log(rate_at(la, c, k) / dv) - log(rate_at(lb, c, k) / dv) for c, k in zip(cell, mbin)]
            na = z3.Sum([x for r in la for x in r]) / dv
            nb = z3.Sum([x for r in lb for x in r]) / dv
            ig = (z3.Sum(xs) - (na - nb)) / N
            s = core.R(stat)
            # quotients formed by the code for the scaled data are the same numbers as rate/10
            hints = []
            for (qq, num, den) in P.notes.get('_divs', []):
                if z3.is_rational_value(z3.simplify(den)):
                    hints.append(qq * den == num)
            return [('public information gain == Rhoades et al. formula on the event rates', z3.And(*hints, z3.Not(z3.And(s.fin(), s.v == ig))))]
        return None
    obs = C.path_obligations(paths, vio, cexf, replay, 'public %s returns a result' % fn, 120, candidate_only=(fn == 'paired_t_test'))
    from .C16 import _aggregate
    obs = _aggregate(obs, paths, trunc)
    n_ok = sum(1 for P in paths if P.kind == 'ok')
    if not any(o.status == 'sat' for o in obs):
        obs.append(Obligation('%s returns a result on all %d explored paths' % (fn, len(paths)),
                              'unsat' if n_ok == len(paths) and not trunc else 'unknown', note='%d ok' % n_ok))
    okp = [P for P in paths if P.kind == 'ok']
    if okp:
        def chk(mod):
            bad, d = replay(cexf(mod, okp[0]))
            return (not bad), d
        obs.append(C.reach_obligation(okp[0], chk))
    return {'obligations': [o.as_dict() for o in obs],
            'samples': [{'function': fn, 'N': N, 'scale': scale, 'events': 'symbolic cell and magnitude bin', 'paths': len(paths)}]}
