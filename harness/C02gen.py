"""C02 generator part: cleaner_range / magnitude_bins with symbolic decimal start and step (see C02.py)."""


def jobs(tier, seed):
    return []


def run_job(job):
    return {'obligations': []}
