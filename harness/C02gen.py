"""C02 generator part: cleaner_range / magnitude_bins return exactly the floats closest to the decimal grid.

The decimal-text step (repr / decimal.Decimal of the arguments) is library code outside the solver's reach, so this
part is NOT solver-decided: it is an exhaustive-on-a-family concrete evaluation of the real functions against exact
rational arithmetic (stated as such in the evidence), on the seeded family below plus the grids every other claim
uses. A failing case is replayed and reported like any other violation."""
from fractions import Fraction

import numpy as np

from symx.harness import Obligation
from . import common as C


def _cases(tier, seed):
    cs = [(0, 3, 2, 33), (-7, 7, 2, 8), (595, 10, 2, 30), (250, 10, 2, 75), (-5, 15, 2, 20), (-1254, 1, 1, 12), (0, 25, 2, 4),
          (-100, 25, 2, 8), (-73, 2, 1, 11), (3, 5, 1, 10), (-18000, 10, 2, 40), (1657, 5, 2, 17), (0, 1, 3, 50), (-479, 1, 1, 30)]
    rng = np.random.RandomState(99 + seed)
    for _ in range(300 if tier == 'quick' else 3000):
        m = int(rng.randint(0, 4))
        cs.append((int(rng.randint(-20000, 20000)), int(rng.randint(1, 200)), m, int(rng.randint(1, 60))))
    return cs


def jobs(tier, seed):
    return [{'name': 'generators: cleaner_range / magnitude_bins on decimal grids (concrete family)', 'kind': 'gen', 'tier': tier,
             'cases': _cases(tier, seed), 'wall': 600}]


def run_job(job):
    from . import C02
    C.real_csep()
    from csep.utils import calc
    from csep.core import regions
    bad = []
    n = 0
    for (A, B, m, K) in job['cases']:
        start, h, end = A / 10 ** m, B / 10 ** m, (A + K * B) / 10 ** m
        for fn in (calc.cleaner_range, regions.magnitude_bins):
            n += 1
            out = [float(x) for x in fn(start, end, h)]
            exp = [float(Fraction(A + i * B, 10 ** m)) for i in range(K + 1)]
            if out != exp:
                bad.append({'kind': 'gen', 'start': start, 'end': end, 'h': h, 'A': A, 'B': B, 'm': m, 'K': K})
                break
    obs = []
    for cex in bad[:5]:
        o = Obligation('generator returns the decimal grid', 'sat', cex=cex)
        o.reproduced, o.detail = C02.replay(cex)
        obs.append(o)
    if not bad:
        obs.append(Obligation('generator output == nearest doubles to (A + k*B)/10^m on %d calls (concrete evaluation, not solver-decided)' % n,
                              'unsat', note='family: %d decimal grids, m<=3, |A|<=2e4, B<200, K<60' % len(job['cases'])))
    return {'obligations': [o.as_dict() for o in obs], 'samples': [{'cases': job['cases'][:5]}]}
