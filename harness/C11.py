"""C11 -- gridded forecast files load into forecasts whose rate lookup matches the file (DESIGN 4/C11)."""
import datetime as rdt
import os
import tempfile

import numpy as np
import z3

from symx import core, symnp, symio, loader
from symx.core import XR, SInt
from symx.harness import Obligation
from . import common as C

ID = 'C11'
KNOWN_KEYS = {}
META = {
    'functions': ['csep/core/forecasts.py GriddedForecast.load_ascii', 'csep/core/forecasts.py GriddedForecast.from_custom',
                  'csep/core/forecasts.py get_rates / get_magnitude_index / get_index_of', 'csep/core/forecasts.py scale / scale_to_test_date',
                  'csep/core/forecasts.py sum / spatial_counts / magnitude_counts', 'csep/__init__.py load_gridded_forecast',
                  'csep/utils/readers.py quadtree_ascii_loader', 'csep/utils/readers.py quadtree_csv_loader',
                  'csep/core/regions.py CartesianGrid2D construction (concrete) and lookup', 'csep/utils/calc.py bin1d_vec (real arithmetic)'],
    'theory': 'the rate column is one distinct opaque real symbol per file row, so "the returned rate equals row j\'s" identifies '
              'the row; lookup point real-valued (bin1d_vec arithmetic is linear; round-off bands excluded); scale factors real',
    'bounds': {'quick': 'Cartesian layouts: 2x2 and 3x3-with-hole lattices x {1,2} magnitude bins x {all flags 1, one flag 0} x '
                        '{row order, shuffled} x swap_latlon on/off; quadtree layouts (ascii and csv) with 4 cells x 2 bins; '
                        'scale / scale_to_test_date sequences of length <= 3',
               'thorough': 'adds 3x4 lattice with holes, 3 magnitude bins, column-major order'},
    'outside': ['text parsing by numpy.loadtxt / genfromtxt (contract: the float / string matrix the file denotes)', 'depth columns',
                'lookup points inside a round-off band (C01 / C02)'],
    'stubs': ['numpy.loadtxt / genfromtxt: deliver the matrix the file denotes'],
    'assumptions': ['well-formed file: every cell lists the same magnitude bins, magnitude fastest'],
}

MAG0 = [4.95, 5.05, 5.15]


def _layout(lat, nmag, flag0, order, swap):
    """rows of a CSEP forecast file for the lattice: (cell index, mag index) per row, plus the numeric columns"""
    cells = list(range(len(lat['origins'])))
    if order == 'shuffle':
        rng = np.random.RandomState(3)
        rng.shuffle(cells)
    elif order == 'col':
        cells.sort(key=lambda i: (lat['cells'][i][0], lat['cells'][i][1]))
    rows = []
    dh = lat['dh']
    for ci in cells:
        ox, oy = lat['origins'][ci]
        for k in range(nmag):
            flag = 0 if (flag0 is not None and ci == flag0) else 1
            lon0, lon1, lat0, lat1 = ox, round(ox + dh, 10), oy, round(oy + dh, 10)
            geo = [lat0, lat1, lon0, lon1] if swap else [lon0, lon1, lat0, lat1]
            rows.append({'cell': ci, 'mag': k, 'num': geo + [0.0, 30.0, MAG0[k], round(MAG0[k] + 0.1, 10)], 'flag': flag})
    return rows


def _edges(lat):
    from . import C01
    return C01._axes(lat)


# ---- replay ---------------------------------------------------------------------------------------------------

def _write_real(path, rows, rates):
    with open(path, 'w') as f:
        for r, rate in zip(rows, rates):
            f.write(' '.join(repr(float(x)) for x in r['num'] + [rate, r['flag']]) + '\n')


def replay(cex):
    csep = C.real_csep()
    k = cex['kind']
    d = tempfile.mkdtemp(prefix='c11-')
    try:
        if k in ('lookup', 'scale'):
            lat = cex['lat']
            rows = _layout(lat, cex['nmag'], cex['flag0'], cex['order'], cex['swap'])
            path = os.path.join(d, 'forecast.dat')
            _write_real(path, rows, cex['rates'])
            start, end = rdt.datetime(2010, 1, 1), rdt.datetime(2011, 1, 1)
            f = csep.load_gridded_forecast(path, swap_latlon=cex['swap'], start_date=start, end_date=end)
            msgs = []
            if k == 'lookup':
                lon, la, m = cex['lon'], cex['lat_v'], cex['mag']
                want = None
                for r, rate in zip(rows, cex['rates']):
                    ox, oy = lat['origins'][r['cell']]
                    inside = ox <= lon < ox + lat['dh'] and oy <= la < oy + lat['dh']
                    mlo = MAG0[r['mag']]
                    mhi = MAG0[r['mag'] + 1] if r['mag'] + 1 < cex['nmag'] else float('inf')
                    if inside and mlo <= m < mhi:
                        want = (rate, r['flag'])
                try:
                    got = float(f.get_rates(np.array([lon]), np.array([la]), np.array([m]))[0])
                except ValueError:
                    got = None
                if want is None or want[1] == 0:
                    if got is not None:
                        msgs.append('get_rates(%r, %r, %r) = %r but the point is in no unflagged row box' % (lon, la, m, got))
                elif got != want[0]:
                    msgs.append('get_rates(%r, %r, %r) = %r, the row box containing the point has rate %r' % (lon, la, m, got, want[0]))
                if list(f.magnitudes) != MAG0[:cex['nmag']]:
                    msgs.append('magnitudes %r, file has %r' % (list(f.magnitudes), MAG0[:cex['nmag']]))
                if cex['flag0'] is None and abs(f.sum() - sum(cex['rates'])) > 1e-9 * max(1.0, abs(sum(cex['rates']))):
                    msgs.append('sum() = %r, rate column sums to %r' % (f.sum(), sum(cex['rates'])))
            else:
                factor = 1.0
                base = np.array(f.data, dtype=float)
                for op, v in cex['ops']:
                    if op == 'scale':
                        f.scale(v)
                        factor = v
                    elif op == 'ter':
                        from csep.core.catalogs import CSEPCatalog
                        o0 = lat['origins'][0]
                        f.target_event_rates(CSEPCatalog(data=[('a', 0, o0[1] + lat['dh'] / 4, o0[0] + lat['dh'] / 4, 10.0, MAG0[0] + 0.01)]), scale=True)
                    else:
                        from csep.utils.time_utils import decimal_year
                        t = rdt.datetime(2010, 7, 1) if v == 'inside' else rdt.datetime(2012, 1, 1)
                        f.scale_to_test_date(t)
                        if v == 'inside':
                            factor = (decimal_year(t + rdt.timedelta(1)) - decimal_year(start)) / (decimal_year(end) - decimal_year(start))
                if not np.allclose(np.array(f.data), base * factor, rtol=1e-12, atol=0):
                    msgs.append('after %r data is not original x %r' % (cex['ops'], factor))
                if abs(f.spatial_counts().sum() - f.sum()) > 1e-9 * max(1.0, abs(f.sum())) or abs(f.magnitude_counts().sum() - f.sum()) > 1e-9 * max(1.0, abs(f.sum())):
                    msgs.append('marginals do not sum to the total')
            return bool(msgs), '; '.join(msgs) or 'forecast agrees with the file'
        if k == 'quad':
            from csep.utils import readers
            from csep.core.forecasts import GriddedForecast
            keys, nmag, rates = cex['keys'], cex['nmag'], np.array(cex['rates'], dtype=float).reshape(len(cex['keys']), cex['nmag'])
            path = os.path.join(d, 'q.' + ('csv' if cex['fmt'] == 'csv' else 'dat'))
            import mercantile
            with open(path, 'w') as f:
                if cex['fmt'] == 'csv':
                    f.write('quadkey,depth_min,depth_max,' + ','.join(repr(m) for m in MAG0[:nmag]) + '\n')
                    for i, q in enumerate(keys):
                        f.write('%s,0,30,%s\n' % (q, ','.join(repr(float(x)) for x in rates[i])))
                else:
                    for i, q in enumerate(keys):
                        b = mercantile.bounds(mercantile.quadkey_to_tile(q))
                        for kk in range(nmag):
                            f.write('%s %r %r %r %r 0.0 30.0 %r %r %r\n' % (q, b.west, b.east, b.south, b.north, MAG0[kk], MAG0[kk] + 0.1, float(rates[i, kk])))
            loader_ = readers.quadtree_csv_loader if cex['fmt'] == 'csv' else readers.quadtree_ascii_loader
            try:
                fc = GriddedForecast.from_custom(loader_, func_args=(path,))
                got = float(fc.get_rates(np.array([cex['lon']]), np.array([cex['lat_v']]), np.array([cex['mag']]))[0])
            except Exception as e:
                return True, '%s: lookup raised %s: %s' % (loader_.__name__, type(e).__name__, e)
            want = None
            for i, q in enumerate(keys):
                b = mercantile.bounds(mercantile.quadkey_to_tile(q))
                if b.west <= cex['lon'] < b.east and b.south <= cex['lat_v'] < b.north:
                    kk = max(j for j in range(nmag) if MAG0[j] <= cex['mag']) if cex['mag'] >= MAG0[0] else None
                    want = None if kk is None else float(rates[i, kk])
            bad = want is not None and got != want
            return bad, '%s: get_rates = %r, file row rate %r' % (loader_.__name__, got, want)
        raise ValueError(k)
    finally:
        import shutil
        shutil.rmtree(d, ignore_errors=True)


# ---- jobs --------------------------------------------------------------------------------------------------------

def jobs(tier, seed):
    out = []
    lats = [C.lattice('2x2', 2, 2, 0.1, (-125.4, 33.3)), C.lattice('3x3-hole', 3, 3, 0.5, (165.5, -47.5), ((1, 1),))]
    if tier == 'thorough':
        lats.append(C.lattice('3x4-holes', 3, 4, 0.25, (-0.25, -0.25), ((0, 3), (2, 0))))
    for lat in lats:
        for nmag in ((1, 2) if tier == 'quick' else (1, 2, 3)):
            for flag0 in (None, 1):
                for order in (('row', 'shuffle') if tier == 'quick' else ('row', 'shuffle', 'col')):
                    for swap in (False, True):
                        if tier == 'quick' and (order == 'shuffle') != (swap is True) and nmag == 1:
                            continue
                        out.append({'name': 'lookup %s nmag=%d flag0=%s %s swap=%s' % (lat['name'], nmag, flag0, order, swap), 'kind': 'lookup',
                                    'lat': lat, 'nmag': nmag, 'flag0': flag0, 'order': order, 'swap': swap, 'cost': len(lat['origins']) * nmag})
    out.append({'name': 'scale sequences', 'kind': 'scale', 'lat': lats[0], 'nmag': 2, 'flag0': None, 'order': 'row', 'swap': False, 'cost': 10})
    for fmt in ('ascii', 'csv'):
        out.append({'name': 'quadtree %s layout' % fmt, 'kind': 'quad', 'fmt': fmt, 'cost': 10})
    for j in out:
        j['tier'] = tier
        j['wall'] = 900 if tier == 'quick' else 3400
    return out


def _setup():
    vfs = symio.VFS()
    L = C.twin(models={'os': symio.OsModel(vfs)}, extra_builtins={'open': vfs.open})
    return L, vfs


def run_job(job):
    snap = C.stats_snapshot()
    core.MODE['float'] = 'xr'
    core.OPT['lazy_bounds'] = True
    res = globals()['_job_' + job['kind']](job)
    res.update(C.stats_delta(snap))
    return res


def _matrix(rows, rate_terms):
    n = len(rows)
    a = np.empty((n, 10), dtype=object)
    for i, r in enumerate(rows):
        for c, v in enumerate(r['num']):
            a[i, c] = float(v)
        a[i, 8] = XR(rate_terms[i])
        a[i, 9] = float(r['flag'])
    return symnp.SArr(a, core.DT64)


def _load(L, vfs, job, rates_t, **kw):
    rows = _layout(job['lat'], job['nmag'], job['flag0'], job['order'], job['swap'])
    path = '/virtual/forecast.dat'
    vfs.files[path] = symio.VFile('matrix')
    symnp.VMATRIX[path] = _matrix(rows, rates_t)
    csep = L.load('csep')
    return rows, csep.load_gridded_forecast(path, swap_latlon=job['swap'], **kw)


def _band_free(v, E, top):
    from . import C02
    cs = []
    n = len(E)
    for k in range(n + 1):
        e = C.frac(E[k]) if k < n else top
        b = 2 * C02.band(k, E, 'f8')
        cs.append(z3.Not(z3.And(v >= _q(e - b), v < _q(e))))
    return z3.And(cs)


def _q(fr):
    from fractions import Fraction
    fr = Fraction(fr)
    return z3.Q(fr.numerator, fr.denominator) if fr.denominator != 1 else z3.RealVal(fr.numerator)


def _job_lookup(job):
    L, vfs = _setup()
    lat, nmag = job['lat'], job['nmag']
    rows0 = _layout(lat, nmag, job['flag0'], job['order'], job['swap'])
    rates_t = [z3.Real('r%d' % i) for i in range(len(rows0))]
    lon, la, m = z3.Real('lon'), z3.Real('lat'), z3.Real('mag')
    Ex, Ey = _edges(lat)
    from . import C02
    topx = C02.top_edge(Ex) if len(Ex) > 1 else C.frac(Ex[0]) + C.frac(lat['dh'])
    topy = C02.top_edge(Ey) if len(Ey) > 1 else C.frac(Ey[0]) + C.frac(lat['dh'])

    def run():
        for r in rates_t:
            core.assume(r >= 0)
        core.assume(z3.And(_band_free(lon, Ex, topx), _band_free(la, Ey, topy)))
        core.assume(z3.And([z3.Not(z3.And(m >= core._rv(e) - z3.Q(1, 10 ** 9), m < core._rv(e))) for e in MAG0[:nmag]]))
        core.assume(z3.And(lon > -400, lon < 400, la > -100, la < 100, m > 0, m < 12))
        rows, f = _load(L, vfs, job, rates_t)
        mags = [float(x) for x in symnp.unwrap(f.magnitudes)]
        total = f.sum()
        sp = symnp.sum(f.spatial_counts())
        mg = symnp.sum(f.magnitude_counts())
        try:
            r = f.get_rates(symnp.asarray([XR(lon)]), symnp.asarray([XR(la)]), symnp.asarray([XR(m)]))
            rate = r.a.reshape(-1)[0]
        except ValueError:
            rate = None
        return rate, mags, total, sp, mg
    paths, trunc = core.explore(run, max_paths=4000)

    def cexf(mod, P):
        f = lambda t: float(core.real_from_model(mod, t))
        return {'kind': 'lookup', 'lat': lat, 'nmag': nmag, 'flag0': job['flag0'], 'order': job['order'], 'swap': job['swap'],
                'rates': [f(r) for r in rates_t], 'lon': f(lon), 'lat_v': f(la), 'mag': f(m)}
    dh = C.frac(lat['dh'])

    def box(r):
        ox, oy = lat['origins'][r['cell']]
        kx, ky = lat['cells'][r['cell']]
        x0, y0 = C.frac(Ex[kx]), C.frac(Ey[ky])
        x1 = C.frac(Ex[kx + 1]) if kx + 1 < len(Ex) else topx
        y1 = C.frac(Ey[ky + 1]) if ky + 1 < len(Ey) else topy
        mlo = core._rv(MAG0[r['mag']])
        c = [lon >= _q(x0), lon < _q(x1), la >= _q(y0), la < _q(y1), m >= mlo]
        if r['mag'] + 1 < nmag:
            c.append(m < core._rv(MAG0[r['mag'] + 1]))
        return z3.And(c)

    def vio(P):
        rate, mags, total, sp, mg = P.value
        bad = [z3.BoolVal(mags != MAG0[:nmag])]
        in_any = []
        for r, rt in zip(rows0, rates_t):
            b = box(r)
            if r['flag'] == 0:
                if rate is not None:
                    bad.append(b)
            else:
                in_any.append(b)
                if rate is None:
                    bad.append(b)
                else:
                    bad.append(z3.And(b, core.R(rate).v != rt))
        if rate is not None:
            bad.append(z3.Not(z3.Or(in_any)) if in_any else z3.BoolVal(True))
        tot = core.R(total).v
        if job['flag0'] is None:
            bad.append(tot != z3.Sum(rates_t))
        bad.append(core.R(sp).v != tot)
        bad.append(core.R(mg).v != tot)
        return z3.Or(bad)
    obs = C.path_obligations(paths, vio, cexf, replay, 'rate lookup = the row whose half-open box contains the point; magnitudes, flags, totals', 120)
    from .C16 import _aggregate
    obs = _aggregate(obs, paths, trunc)
    okp = [P for P in paths if P.kind == 'ok' and P.value[0] is not None]
    if okp:
        def chk(mod):
            bad, d = replay(cexf(mod, okp[0]))
            return (not bad), d
        obs.append(C.reach_obligation(okp[0], chk))
    return {'obligations': [o.as_dict() for o in obs],
            'samples': [{'layout': job['name'], 'rows': len(rows0), 'rates': 'one opaque symbol per row', 'point': 'symbolic', 'paths': len(paths)}]}


def _job_scale(job):
    """scaling is absolute and linear: after any sequence of scale / scale_to_test_date calls, data = original x last factor"""
    import datetime as sdt
    L, vfs = _setup()
    rows0 = _layout(job['lat'], job['nmag'], None, 'row', False)
    rates_t = [z3.Real('r%d' % i) for i in range(len(rows0))]
    v1, v2 = z3.Real('v1'), z3.Real('v2')
    ops = [z3.Int('op%d' % i) for i in range(3)]
    OPN = ['scale v1', 'scale v2', 'test date inside', 'test date outside', 'target_event_rates(scale=True)']
    tu = C.real_csep() and None
    from csep.utils.time_utils import decimal_year
    start, end = rdt.datetime(2010, 1, 1), rdt.datetime(2011, 1, 1)
    tin = rdt.datetime(2010, 7, 1)
    fin = (decimal_year(tin + rdt.timedelta(1)) - decimal_year(start)) / (decimal_year(end) - decimal_year(start))

    def run():
        for r in rates_t:
            core.assume(r >= 0)
        core.assume(z3.And(v1 > 0, v2 > 0))
        for o in ops:
            core.assume(z3.And(o >= 0, o < 5))
        rows, f = _load(L, vfs, job, rates_t, start_date=start, end_date=end)
        cats = L.load('csep.core.catalogs')
        o0, dh0 = job['lat']['origins'][0], job['lat']['dh']
        hist = []
        for o in ops:
            k = core.concretize(SInt(o), 0, 4)
            hist.append(k)
            if k == 4:
                # a read-only request (per-day rates of a target event) in the middle of the history must not change the forecast
                f.target_event_rates(cats.CSEPCatalog(data=[('a', 0, o0[1] + dh0 / 4, o0[0] + dh0 / 4, 10.0, MAG0[0] + 0.01)]), scale=True)
            elif k == 0:
                f.scale(XR(v1))
            elif k == 1:
                f.scale(XR(v2))
            elif k == 2:
                f.scale_to_test_date(tin)
            else:
                f.scale_to_test_date(rdt.datetime(2012, 1, 1))
        return hist, f.data, f.sum(), symnp.sum(f.spatial_counts()), symnp.sum(f.magnitude_counts())
    paths, trunc = core.explore(run, max_paths=2000)
    ncell = len(job['lat']['origins'])

    def cexf(mod, P):
        f = lambda t: float(core.real_from_model(mod, t))
        hist = P.value[0] if P is not None and P.kind == 'ok' else [0, 0, 0]
        return {'kind': 'scale', 'lat': job['lat'], 'nmag': job['nmag'], 'flag0': None, 'order': 'row', 'swap': False,
                'rates': [f(r) for r in rates_t],
                'ops': [('scale', f(v1)) if k == 0 else ('scale', f(v2)) if k == 1 else ('ter', None) if k == 4 else ('date', 'inside' if k == 2 else 'outside')
                        for k in hist]}

    def vio(P):
        hist, data, tot, sp, mg = P.value
        factor = z3.RealVal(1)
        for k in hist:
            if k == 0:
                factor = v1
            elif k == 1:
                factor = v2
            elif k == 2:
                factor = core._rv(fin)
        bad = []
        for i, r in enumerate(rows0):
            bad.append(core.R(data.a[r['cell'], r['mag']]).v != rates_t[i] * factor)
        bad.append(core.R(sp).v != core.R(tot).v)
        bad.append(core.R(mg).v != core.R(tot).v)
        return z3.Or(bad)
    obs = C.path_obligations(paths, vio, cexf, replay, 'data = original x last factor; marginals sum to the total', 60)
    from .C16 import _aggregate
    obs = _aggregate(obs, paths, trunc)
    return {'obligations': [o.as_dict() for o in obs], 'samples': [{'operations': OPN, 'history length': 3, 'paths': len(paths)}]}


def _job_quad(job):
    L, vfs = _setup()
    fmt = job['fmt']
    keys = ['0', '1', '2', '3']
    nmag = 2
    rates_t = [z3.Real('r%d' % i) for i in range(len(keys) * nmag)]
    lon, la, m = z3.Real('lon'), z3.Real('lat'), z3.Real('mag')
    import mercantile
    bnds = [mercantile.bounds(mercantile.quadkey_to_tile(q)) for q in keys]
    readers = L.load('csep.utils.readers')
    forecasts = L.load('csep.core.forecasts')

    def run():
        core.assume(z3.And(lon >= -180, lon < 180, la > -85, la < 85, m >= core._rv(MAG0[0]), m < 9))
        core.assume(z3.And([z3.Not(z3.And(m >= core._rv(e) - z3.Q(1, 10 ** 9), m < core._rv(e))) for e in MAG0[:nmag]]))
        path = '/virtual/q.' + ('csv' if fmt == 'csv' else 'dat')
        if fmt == 'csv':
            a = np.empty((len(keys) + 1, 3 + nmag), dtype=object)
            a[0, :] = ['quadkey', 'depth_min', 'depth_max'] + [repr(x) for x in MAG0[:nmag]]
            for i, q in enumerate(keys):
                a[i + 1, :3] = [q, '0', '30']
                for kk in range(nmag):
                    a[i + 1, 3 + kk] = loader.sym_literal(XR(rates_t[i * nmag + kk]))
        else:
            a = np.empty((len(keys) * nmag, 10), dtype=object)
            for i, q in enumerate(keys):
                b = bnds[i]
                for kk in range(nmag):
                    a[i * nmag + kk, :] = [q, repr(b.west), repr(b.east), repr(b.south), repr(b.north), '0.0', '30.0', repr(MAG0[kk]),
                                           repr(MAG0[kk] + 0.1), loader.sym_literal(XR(rates_t[i * nmag + kk]))]
        symnp.VMATRIX[path] = symnp.SArr(a, np.dtype('<U32'))
        loader_ = readers.quadtree_csv_loader if fmt == 'csv' else readers.quadtree_ascii_loader
        fc = forecasts.GriddedForecast.from_custom(loader_, func_args=(path,))
        r = fc.get_rates(symnp.asarray([XR(lon)]), symnp.asarray([XR(la)]), symnp.asarray([XR(m)]))
        return r.a.reshape(-1)[0]
    paths, trunc = core.explore(run, max_paths=2000)

    def cexf(mod, P):
        f = lambda t: float(core.real_from_model(mod, t))
        return {'kind': 'quad', 'fmt': fmt, 'keys': keys, 'nmag': nmag, 'rates': [f(r) for r in rates_t], 'lon': f(lon), 'lat_v': f(la), 'mag': f(m)}

    def vio(P):
        rate = P.value
        bad = []
        for i, b in enumerate(bnds):
            for kk in range(nmag):
                c = [lon >= core._rv(b.west), lon < core._rv(b.east), la >= core._rv(b.south), la < core._rv(b.north), m >= core._rv(MAG0[kk])]
                if kk + 1 < nmag:
                    c.append(m < core._rv(MAG0[kk + 1]))
                bad.append(z3.And(*c, core.R(rate).v != rates_t[i * nmag + kk]))
        return z3.Or(bad)
    obs = C.path_obligations(paths, vio, cexf, replay, 'quadtree %s forecast: rate lookup = file entry of the containing cell and bin' % fmt, 60)
    from .C16 import _aggregate
    obs = _aggregate(obs, paths, trunc)
    return {'obligations': [o.as_dict() for o in obs], 'samples': [{'format': fmt, 'cells': keys, 'bins': nmag, 'paths': len(paths)}]}
