"""C03 -- gridding a catalog counts every event exactly once, in its own cell and bin (DESIGN 4/C03)."""
from fractions import Fraction

import numpy as np
import z3

from symx import core, symnp
from symx.core import XR, SInt
from symx.harness import Obligation
from . import common as C
from . import evalfix as F

ID = 'C03'
KNOWN_KEYS = {
    'quadtree-drops-outside-points': 'QuadtreeGrid2D.get_index_of silently drops points that lie in no cell, so the gridding '
                                     'functions pair the remaining cell indices with the wrong magnitudes / undercount',
}
META = {
    'functions': ['csep/core/catalogs.py CSEPCatalog.spatial_counts', 'csep/core/catalogs.py spatial_event_probability',
                  'csep/core/catalogs.py magnitude_counts', 'csep/core/catalogs.py spatial_magnitude_counts',
                  'csep/core/catalogs.py get_mag_idx', 'csep/core/catalogs.py filter (magnitude range)',
                  'csep/utils/calc.py bin1d_vec (real arithmetic semantics)',
                  'csep/core/regions.py QuadtreeGrid2D.get_index_of/_find_location (concrete zoom-1 grid)'],
    'theory': 'reals for coordinates and magnitudes (comparisons and the linear bin1d_vec arithmetic), integers for indices; '
              'Cartesian region abstracted by C01\'s contract: an uninterpreted function cell(lon, lat) in {-1 (outside), 0..n-1}',
    'bounds': {'quick': 'N <= 2 events (any order, duplicates allowed), 3 cells, magnitude grids [4,5,6] and 5.95:0.1:6.25; '
                        'quadtree zoom 1 (4 cells) with 2 events',
               'thorough': 'N <= 3, quadtree zoom 2'},
    'outside': ['N beyond the bound', 'the spatial partition itself (C01 / C17)', 'magnitudes inside the C02 round-off band'],
    'stubs': ['Cartesian region: cell(lon, lat) uninterpreted (C01 contract)'],
    'assumptions': ['magnitudes not inside a round-off band below a bin edge'],
}

GRIDS = {'4:1:6': [4.0, 5.0, 6.0], '5.95:0.1:6.25': [5.95, 6.05, 6.15, 6.25]}


def _band_free(m, edges):
    from . import C02
    cs = []
    for k, e in enumerate(edges):
        b = C02.band(k, edges, 'f8')
        cs.append(z3.Not(z3.And(m >= core._rv(float(e)) - z3.RealVal(b.numerator) / z3.RealVal(b.denominator), m < core._rv(float(e)))))
    return z3.And(cs)


def _mag_bin(m, edges):
    """exact bin index term: number of edges <= m, minus one (open at the top); -1 below the first edge"""
    return z3.Sum([z3.If(m >= core._rv(float(e)), 1, 0) for e in edges]) - 1


# ---- replay --------------------------------------------------------------------------------------------------

def _real_region_cart(ncell):
    C.real_csep()
    from csep.core import regions
    from csep import models
    lat = C.lattice('row', ncell, 1, 0.5, (10.0, 40.0))
    return C.build_region(regions, models, lat), lat


def replay(cex):
    C.real_csep()
    from csep.core.catalogs import CSEPCatalog
    from csep.core import regions
    edges = cex['edges']
    if cex['region'] == 'cartesian':
        reg, lat = _real_region_cart(cex['ncell'])
        pts = []
        for c in cex['cells']:
            if c < 0:
                pts.append((5.0, 5.0))                    # outside the region
            else:
                pts.append((lat['origins'][c][0] + 0.25, lat['origins'][c][1] + 0.25))
        true_cells = list(cex['cells'])
    else:
        reg = regions.QuadtreeGrid2D.from_single_resolution(cex['zoom'])
        pts = [tuple(p) for p in cex['points']]
        true_cells = []
        for (lo, la) in pts:
            hit = [i for i, b in enumerate(reg.bounds) if b[0] <= lo < b[2] and b[1] <= la < b[3]]
            true_cells.append(hit[0] if hit else -1)
    reg.magnitudes = np.array(edges)
    mags = cex['mags']
    data = [('e%d' % i, 0, p[1], p[0], 10.0, m) for i, (p, m) in enumerate(zip(pts, mags))]
    N = len(data)
    msgs = []
    mb = [sum(1 for e in edges if e <= m) - 1 for m in mags]
    cat = lambda: CSEPCatalog(data=data, region=reg)
    want = np.zeros((reg.num_nodes, len(edges)))
    ok_all = all(c >= 0 for c in true_cells) and all(b >= 0 for b in mb)
    if ok_all:
        for c, b in zip(true_cells, mb):
            want[c, b] += 1
    try:
        smc = cat().spatial_magnitude_counts()
        if not ok_all:
            msgs.append('spatial_magnitude_counts accepted an event outside the region / below the first magnitude edge: %r' % smc.tolist())
        elif not np.array_equal(smc, want):
            msgs.append('spatial_magnitude_counts %r, expected %r' % (smc.tolist(), want.tolist()))
    except (ValueError, IndexError) as e:
        if ok_all:
            msgs.append('spatial_magnitude_counts raised %r although all events are inside' % (e,))
    if N:
        mc = cat().magnitude_counts()
        wmc = np.zeros(len(edges))
        for b in mb:
            if b >= 0:
                wmc[b] += 1
        if not np.array_equal(mc, wmc):
            msgs.append('magnitude_counts %r, expected %r (magnitudes %r)' % (mc.tolist(), wmc.tolist(), mags))
        for k in range(len(edges)):
            st = ['magnitude >= %r' % edges[k]] + (['magnitude < %r' % edges[k + 1]] if k + 1 < len(edges) else [])
            kept = cat().filter(st).event_count
            if kept != wmc[k]:
                msgs.append('filter(%r) keeps %d events, magnitude_counts oracle %d' % (st, kept, wmc[k]))
    if all(c >= 0 for c in true_cells) and N:
        sc = cat().spatial_counts()
        wsc = np.zeros(reg.num_nodes)
        for c in true_cells:
            wsc[c] += 1
        if not np.array_equal(sc, wsc):
            msgs.append('spatial_counts %r, expected %r' % (sc.tolist(), wsc.tolist()))
        pr = cat().spatial_event_probability()
        if not np.array_equal(pr, (wsc > 0).astype(float)):
            msgs.append('spatial_event_probability %r, expected %r' % (pr.tolist(), (wsc > 0).astype(float).tolist()))
    elif N:
        try:
            sc = cat().spatial_counts()
            if sc.sum() != sum(1 for c in true_cells if c >= 0) or True:
                msgs.append('spatial_counts accepted an event outside the region: %r' % sc.tolist())
        except (ValueError, IndexError):
            pass
    return bool(msgs), '; '.join(msgs) or 'gridded counts agree with the per-event cells and bins'


def classify(cex):
    if cex.get('region') == 'quadtree':
        from csep.core import regions
        reg = regions.QuadtreeGrid2D.from_single_resolution(cex['zoom'])
        for (lo, la) in cex['points']:
            if not any(b[0] <= lo < b[2] and b[1] <= la < b[3] for b in reg.bounds):
                return 'quadtree-drops-outside-points'
    return None


def jobs(tier, seed):
    out = []
    for N in ((0, 1, 2) if tier == 'quick' else (0, 1, 2, 3)):
        for g in GRIDS:
            out.append({'name': 'cartesian N=%d grid %s' % (N, g), 'kind': 'cart', 'N': N, 'grid': g, 'cost': 3 ** N})
    out.append({'name': 'quadtree zoom 1 N=2', 'kind': 'quad', 'N': 2, 'zoom': 1, 'grid': '4:1:6', 'cost': 30})
    out.append({'name': 'quadtree zoom 1 N=1', 'kind': 'quad', 'N': 1, 'zoom': 1, 'grid': '4:1:6', 'cost': 5})
    if tier == 'thorough':
        out.append({'name': 'quadtree zoom 2 N=2', 'kind': 'quad', 'N': 2, 'zoom': 2, 'grid': '4:1:6', 'cost': 100})
    for j in out:
        j['tier'] = tier
        j['wall'] = 800 if tier == 'quick' else 3400
    return out


def run_job(job):
    snap = C.stats_snapshot()
    core.MODE['float'] = 'xr'
    core.OPT['lazy_bounds'] = True
    res = globals()['_job_' + job['kind']](job)
    res.update(C.stats_delta(snap))
    return res


def _mk_catalog(cats, N, lons, lats, mags, region):
    rec = symnp.rec_empty(N, cats.CSEPCatalog.dtype)
    for i in range(N):
        rec.cols['id'].a[i] = ('e%d' % i).encode()
    if N:
        rec.cols['longitude'] = symnp.asarray([XR(x) for x in lons])
        rec.cols['latitude'] = symnp.asarray([XR(x) for x in lats])
        rec.cols['magnitude'] = symnp.asarray([XR(x) for x in mags])
    return cats.CSEPCatalog(data=rec, region=region, compute_stats=False)


def _results(cat_factory, edges):
    """run the gridding functions, each on a fresh catalog object; exceptions are recorded as values"""
    out = {}
    for name, call in (('smc', lambda c: c.spatial_magnitude_counts()), ('mc', lambda c: c.magnitude_counts()),
                       ('sc', lambda c: c.spatial_counts()), ('pr', lambda c: c.spatial_event_probability())):
        try:
            out[name] = call(cat_factory())
        except (ValueError, IndexError) as e:
            out[name] = e
    out['filt'] = []
    for k in range(len(edges)):
        st = ['magnitude >= %r' % edges[k]] + (['magnitude < %r' % edges[k + 1]] if k + 1 < len(edges) else [])
        out['filt'].append(cat_factory().filter(st).event_count)
    return out


def _vio_from(res, cells_t, bins_t, ncell, edges, N):
    """negated oracle. cells_t / bins_t: z3 Int terms of the true cell (-1 outside) and bin (-1 below) per event"""
    nb = len(edges)
    qs = []
    all_in = z3.And([c >= 0 for c in cells_t] + [b >= 0 for b in bins_t]) if N else z3.BoolVal(True)
    sp_in = z3.And([c >= 0 for c in cells_t]) if N else z3.BoolVal(True)

    def val(e):
        return core.R(e).v

    def cnt(pred_list):
        return z3.ToReal(z3.Sum([z3.If(p, 1, 0) for p in pred_list])) if pred_list else z3.RealVal(0)
    smc = res['smc']
    if isinstance(smc, Exception):
        qs.append(('space-magnitude gridding rejects only events outside the region / below the grid', all_in))
    else:
        bad = [z3.Not(all_in)]
        for i in range(ncell):
            for k in range(nb):
                bad.append(val(smc.a[i, k]) != cnt([z3.And(c == i, b == k) for c, b in zip(cells_t, bins_t)]))
        qs.append(('entry (i,k) = number of events in cell i and bin k', z3.Or(bad)))
        tot = z3.Sum([val(e) for e in smc.a.reshape(-1)])
        qs.append(('total = number of events', tot != N))
    mc = res['mc']
    if isinstance(mc, Exception):
        qs.append(('magnitude_counts does not raise', z3.BoolVal(True)))
    else:
        bad = []
        for k in range(nb):
            want = cnt([b == k for b in bins_t])
            bad.append(val(mc.a[k]) != want)
            f = res['filt'][k]
            bad.append(core.R(f).v != want)
        qs.append(('magnitude histogram: bin k counts the events of bin k (= magnitude-range filter), below-grid events uncounted', z3.Or(bad)))
    sc, pr = res['sc'], res['pr']
    if isinstance(sc, Exception) or isinstance(pr, Exception):
        qs.append(('spatial counts reject only events outside the region', sp_in))
    else:
        bad = [z3.Not(sp_in)]
        for i in range(ncell):
            want = cnt([c == i for c in cells_t])
            bad.append(val(sc.a[i]) != want)
            bad.append(val(pr.a[i]) != z3.If(want > 0, z3.RealVal(1), z3.RealVal(0)))
        qs.append(('spatial counts / occupancy', z3.Or(bad)))
        if not isinstance(smc, Exception):
            bad2 = []
            for i in range(ncell):
                bad2.append(z3.Sum([val(smc.a[i, k]) for k in range(nb)]) != val(sc.a[i]))
            if not isinstance(mc, Exception):
                for k in range(nb):
                    bad2.append(z3.Sum([val(smc.a[i, k]) for i in range(ncell)]) != val(mc.a[k]))
            qs.append(('row / column sums = spatial / magnitude counts', z3.Or(bad2)))
    return qs


def _job_cart(job):
    L = C.twin()
    cats = L.load('csep.core.catalogs')
    regions = L.load('csep.core.regions')
    N, edges = job['N'], GRIDS[job['grid']]
    ncell = 3
    lons = [z3.Real('lon%d' % i) for i in range(N)]
    lats = [z3.Real('lat%d' % i) for i in range(N)]
    mags = [z3.Real('m%d' % i) for i in range(N)]
    cellof = z3.Function('cellof', z3.RealSort(), z3.RealSort(), z3.IntSort())

    class AbsRegion(regions.CartesianGrid2D):
        """C01's contract: every point has one cell index in 0..n-1 or is outside (-1)"""
        def __init__(self, n, magnitudes):
            self.polygons = [None] * n
            self.magnitudes = magnitudes
            self.name = 'abstract'

        def _cells(self, lons, lats):
            lo, la = symnp.asarray(lons), symnp.asarray(lats)
            out = []
            for i in range(len(lo)):
                c = cellof(core.R(lo[i]).v, core.R(la[i]).v)
                core.assume(z3.And(c >= -1, c < len(self.polygons)))
                out.append(SInt(c, dom=(-1, len(self.polygons) - 1)))
            return out

        def get_index_of(self, lons, lats):
            cs = self._cells(lons, lats)
            for c in cs:
                if c == -1:
                    raise ValueError('at least one lon and lat pair contain values that are outside of the valid region.')
            return symnp.asarray(cs, dtype=np.int64) if cs else symnp.zeros(0, dtype=np.int64)

        def get_masked(self, lons, lats):
            cs = self._cells(lons, lats)
            return symnp.asarray([c == -1 for c in cs]) if cs else symnp.zeros(0, dtype=bool)

    def run():
        for m in mags:
            core.assume(_band_free(m, edges))
            core.assume(z3.And(m > 0, m < 10))
        reg = AbsRegion(ncell, symnp.asarray(np.array(edges)))
        return _results(lambda: _mk_catalog(cats, N, lons, lats, mags, reg), edges)
    paths, trunc = core.explore(run, max_paths=6000)
    cells_t = [cellof(lo, la) for lo, la in zip(lons, lats)]
    bins_t = [_mag_bin(m, edges) for m in mags]

    def cexf(mod, P):
        return {'region': 'cartesian', 'ncell': ncell, 'edges': edges, 'cells': [core.int_from_model(mod, c) for c in cells_t],
                'mags': [float(core.real_from_model(mod, m)) for m in mags]}
    obs = C.path_obligations(paths, lambda P: _vio_from(P.value, cells_t, bins_t, ncell, edges, N), cexf, replay, 'gridding', 120,
                             classify=classify)
    from .C16 import _aggregate
    obs = _aggregate(obs, paths, trunc)
    okp = [P for P in paths if P.kind == 'ok']
    if okp and N:
        def chk(mod):
            bad, d = replay(cexf(mod, okp[0]))
            return (not bad), d
        obs.append(C.reach_obligation(okp[0], chk))
    return {'obligations': [o.as_dict() for o in obs],
            'samples': [{'events': N, 'cells': ncell, 'magnitude edges': edges, 'paths': len(paths)}]}


def _job_quad(job):
    L = C.twin()
    cats = L.load('csep.core.catalogs')
    regions = L.load('csep.core.regions')
    N, edges, zoom = job['N'], GRIDS[job['grid']], job['zoom']
    lons = [z3.Real('lon%d' % i) for i in range(N)]
    lats = [z3.Real('lat%d' % i) for i in range(N)]
    mags = [z3.Real('m%d' % i) for i in range(N)]
    reg = regions.QuadtreeGrid2D.from_single_resolution(zoom, magnitudes=symnp.asarray(np.array(edges)))
    bounds = [[float(x) for x in b] for b in symnp.unwrap(reg.bounds)]
    ncell = len(bounds)

    def run():
        for lo, la, m in zip(lons, lats, mags):
            core.assume(z3.And(lo >= -200, lo <= 200, la >= -95, la <= 95, m > 0, m < 10))
            core.assume(_band_free(m, edges))
        return _results(lambda: _mk_catalog(cats, N, lons, lats, mags, reg), edges)
    paths, trunc = core.explore(run, max_paths=8000)

    def cell_term(lo, la):
        t = z3.IntVal(-1)
        for i in range(ncell - 1, -1, -1):
            b = bounds[i]
            t = z3.If(z3.And(lo >= core._rv(b[0]), lo < core._rv(b[2]), la >= core._rv(b[1]), la < core._rv(b[3])), z3.IntVal(i), t)
        return t
    cells_t = [cell_term(lo, la) for lo, la in zip(lons, lats)]
    bins_t = [_mag_bin(m, edges) for m in mags]

    def cexf(mod, P):
        f = lambda t: float(core.real_from_model(mod, t))
        return {'region': 'quadtree', 'zoom': zoom, 'edges': edges, 'points': [(f(lo), f(la)) for lo, la in zip(lons, lats)],
                'mags': [f(m) for m in mags]}
    K = z3.Or([c == -1 for c in cells_t])          # the listed finding class: some event lies in no cell

    def vio(P):
        qs = _vio_from(P.value, cells_t, bins_t, ncell, edges, N)
        out = [(nm, z3.And(q, z3.Not(K))) for nm, q in qs]
        out.append(('finding class quadtree-drops-outside-points', z3.And(z3.Or([q for _, q in qs]), K)))
        return out
    obs = C.path_obligations(paths, vio, cexf, replay, 'gridding (quadtree)', 120, classify=classify)
    for o in obs:
        # inside the listed finding class (events in no cell) the real lookup returns FEWER indices than events; how the
        # gridding code pairs them is implementation detail that the lazy index model does not fix: a model that does not
        # replay there is "class not reproduced", never a harness error and never a verdict
        if 'finding class' in o.name and o.status == 'sat' and not o.reproduced:
            o.candidate_only = True
    from .C16 import _aggregate
    obs = _aggregate(obs, paths, trunc)
    return {'obligations': [o.as_dict() for o in obs],
            'samples': [{'events': N, 'quadtree zoom': zoom, 'cells': ncell, 'paths': len(paths)}]}
