"""C01 -- Cartesian regions: each point belongs to the one half-open cell containing it (DESIGN 4/C01)."""
from fractions import Fraction

import numpy as np
import z3

from symx import core, symnp
from symx.core import SFP, SBV, F64, DT64, fpconst
from symx.harness import Obligation
from . import common as C
from .common import frac, tau

ID = 'C01'
KNOWN_KEYS = {
    'single-edge-axis': 'a region with a single column (or row) of cells is open-ended to the east (north): bin1d_vec '
                        'forces the open-ended mode for a one-element edge array',
}
META = {
    'functions': ['csep/core/regions.py CartesianGrid2D.get_index_of', 'csep/core/regions.py CartesianGrid2D.get_masked',
                  'csep/core/regions.py CartesianGrid2D.get_cartesian', 'csep/core/regions.py CartesianGrid2D.get_location_of',
                  'csep/core/regions.py CartesianGrid2D.__init__/_build_bitmask_vec (concrete, via real numpy)',
                  'csep/utils/calc.py bin1d_vec', 'csep/utils/calc.py _get_tolerance',
                  'csep/core/catalogs.py CSEPCatalog.filter_spatial', 'csep/core/catalogs.py CSEPCatalog.spatial_counts'],
    'theory': 'QF_BVFP, bit-exact float64; bounding-box tables as ite-chains over 64-bit indices',
    'bounds': {'quick': 'lattice family: 6 shapes (2x2, 3x3 with hole, 3x4 with holes and a flagged cell, 1x4, 4x1, 1x1) x '
                        '2 (spacing, anchor) combinations; point = every finite (lon, lat) float64 pair; catalog clauses with '
                        '2 events',
               'thorough': '6 shapes x 25 (spacing, anchor) x 3 cell orders; 3 events'},
    'outside': ['lattices not in the family', 'NaN/inf coordinates',
                'points inside the round-off band below a cell boundary (either adjacent cell accepted)'],
    'stubs': [],
    'assumptions': ['coordinates finite'],
}


def _axes(lat):
    """bounding-box edge values from the lattice description alone (nearest doubles to the decimal grid)"""
    Ex = [(lat['AX'] + k * lat['D']) / lat['scale'] for k in range(lat['nx'])]
    Ey = [(lat['AY'] + k * lat['D']) / lat['scale'] for k in range(lat['ny'])]
    return Ex, Ey


def _cells(lat):
    """active cells as (index, x0, x1, y0, y1, kx, ky): cell i spans [E[k], E[k+1]) on each axis, where E are the
    lattice's own origin values and the last edge is the bounding-box top (last origin + spacing), exactly the edge
    set the 1-D contract (C02 oracle) is stated on"""
    from . import C02
    Ex, Ey = _axes(lat)
    FX = [frac(e) for e in Ex] + [C02.top_edge(Ex) if len(Ex) > 1 else frac(Ex[0]) + frac(lat['dh'])]
    FY = [frac(e) for e in Ey] + [C02.top_edge(Ey) if len(Ey) > 1 else frac(Ey[0]) + frac(lat['dh'])]
    out = []
    for i, (kx, ky) in enumerate(lat['cells']):
        if lat['flags'] is not None and lat['flags'][i] == 0:
            continue
        out.append((i, FX[kx], FX[kx + 1], FY[ky], FY[ky + 1], kx, ky))
    return out, Ex, Ey


def _bands(lat, c, Ex, Ey):
    from . import C02
    (i, x0, x1, y0, y1, kx, ky) = c
    return (C02.band(kx, Ex, 'f8'), C02.band(kx + 1, Ex, 'f8'), C02.band(ky, Ey, 'f8'), C02.band(ky + 1, Ey, 'f8'))


def oracle(lat, lon, la, idx, masked):
    """violated clauses for one concrete point; idx = int or None (ValueError); masked = bool"""
    cells, x0f, y0f = _cells(lat)
    flon, fla = Fraction(lon), Fraction(la)
    bad = []
    in_core = None
    near_any = False
    for c in cells:
        (i, x0, x1, y0, y1, kx, ky) = c
        tx_lo, tx_hi, ty_lo, ty_hi = _bands(lat, c, x0f, y0f)
        if x0 <= flon < x1 - tx_hi and y0 <= fla < y1 - ty_hi:
            in_core = i
        if x0 - tx_lo <= flon < x1 and y0 - ty_lo <= fla < y1:
            near_any = True
    if in_core is not None:
        if idx != in_core:
            bad.append('point (%r, %r) lies in cell %d but get_index_of gives %r' % (lon, la, in_core, idx))
        if masked:
            bad.append('point (%r, %r) lies in cell %d but is reported masked' % (lon, la, in_core))
    if not near_any:
        if idx is not None:
            bad.append('point (%r, %r) lies in no cell but get_index_of gives %r' % (lon, la, idx))
        if not masked:
            bad.append('point (%r, %r) lies in no cell but is not masked' % (lon, la))
    if (idx is None) != bool(masked):
        bad.append('get_index_of %s but get_masked says %s at (%r, %r)' % ('raises' if idx is None else 'returns %d' % idx, masked, lon, la))
    return bad


def _real_region(lat):
    C.real_csep()
    from csep.core import regions
    from csep import models
    return C.build_region(regions, models, lat)


def replay(cex):
    lat = cex['lat']
    reg = _real_region(lat)
    if cex['kind'] == 'point':
        lon, la = cex['lon'], cex['lat_v']
        try:
            idx = int(reg.get_index_of(np.array([lon]), np.array([la]))[0])
        except ValueError:
            idx = None
        masked = bool(reg.get_masked(np.array([lon]), np.array([la]))[0])
        bad = oracle(lat, lon, la, idx, masked)
        return bool(bad), '; '.join(bad) or 'real region agrees with the partition at (%r, %r): idx=%r masked=%r' % (lon, la, idx, masked)
    if cex['kind'] == 'catalog':
        C.real_csep()
        from csep.core.catalogs import CSEPCatalog
        pts = cex['points']
        data = [(str(i), 0, la, lon, 10.0, 5.0) for i, (lon, la) in enumerate(pts)]
        msgs = []
        per = []
        for (lon, la) in pts:
            try:
                i0 = int(reg.get_index_of(np.array([lon]), np.array([la]))[0])
            except ValueError:
                i0 = None
            per.append(i0)
        cat = CSEPCatalog(data=data, region=reg)
        kept = CSEPCatalog(data=data, region=reg).filter_spatial(in_place=False)
        want_kept = [str(i) for i, p in enumerate(per) if p is not None]
        got_kept = [x.decode() for x in kept.get_event_ids()]
        if got_kept != want_kept:
            msgs.append('filter_spatial keeps %s, in-region events are %s' % (got_kept, want_kept))
        try:
            sc = cat.spatial_counts()
            if any(p is None for p in per):
                msgs.append('spatial_counts accepted an event outside the region')
            else:
                want = np.zeros(reg.num_nodes)
                for p in per:
                    want[p] += 1
                if not np.array_equal(sc, want):
                    msgs.append('spatial_counts %s, expected %s' % (sc.tolist(), want.tolist()))
        except ValueError:
            if all(p is not None for p in per):
                msgs.append('spatial_counts raised although every event is inside the region')
        for (lon, la), p in zip(pts, per):
            m = bool(reg.get_masked(np.array([lon]), np.array([la]))[0])
            msgs += oracle(lat, lon, la, p, m)
        return bool(msgs), '; '.join(msgs) or 'catalog-level results agree with the partition'
    if cex['kind'] == 'edge1d':
        from . import C02
        return C02.replay({'kind': 'bin', 'edges': cex['edges'], 'rc': False, 'dt': 'f8', 'v': cex['v']})
    if cex['kind'] == 'cartesian':
        data = np.array(cex['data'], dtype=float)
        out = reg.get_cartesian(data)
        msgs = []
        nx, ny = len(reg.xs), len(reg.ys)
        cells, x0f, y0f = _cells(lat)
        want = np.full((ny, nx), np.nan)
        for (i, x0, x1, y0, y1, kx, ky) in cells:
            want[ky, kx] = data[i]
        if not np.array_equal(out, want, equal_nan=True):
            msgs.append('get_cartesian places %s, expected %s' % (out.tolist(), want.tolist()))
        return bool(msgs), '; '.join(msgs) or 'get_cartesian agrees'
    raise ValueError(cex['kind'])


def _tops(lat):
    cells, Ex, Ey = _cells(lat)
    from . import C02
    tx = C02.top_edge(Ex) if len(Ex) > 1 else frac(Ex[0]) + frac(lat['dh'])
    ty = C02.top_edge(Ey) if len(Ey) > 1 else frac(Ey[0]) + frac(lat['dh'])
    return tx, ty


def classify(cex):
    """single-edge-axis: the point lies beyond the open end of an axis that has a single column / row"""
    lat = cex['lat']
    if cex.get('kind') != 'point':
        pts = cex.get('points') or []
    else:
        pts = [(cex['lon'], cex['lat_v'])]
    tx, ty = _tops(lat)
    for (lon, la) in pts:
        if (lat['nx'] == 1 and Fraction(lon) >= tx) or (lat['ny'] == 1 and Fraction(la) >= ty):
            return 'single-edge-axis'
    return None


def _known_region(lat, lon, la):
    """z3 predicate K of the finding class (False when the lattice has no single-edge axis)"""
    tx, ty = _tops(lat)
    ks = []
    if lat['nx'] == 1:
        ks.append(C.fp_geq(lon, tx))
    if lat['ny'] == 1:
        ks.append(C.fp_geq(la, ty))
    return z3.Or(ks) if ks else None


def _off_band(lat, lon, la):
    """both coordinates outside every round-off band (there the 1-D contract is exact)"""
    from . import C02
    cells, Ex, Ey = _cells(lat)
    cs = []
    for v, E in ((lon, Ex), (la, Ey)):
        n = len(E)
        for k in range(n + 1):
            e = frac(E[k]) if k < n else (C02.top_edge(E) if n > 1 else None)
            if e is None:
                continue
            cs.append(z3.Not(z3.And(C.fp_geq(v, e - C02.band(k, E, 'f8')), C.fp_below(v, e))))
    return z3.And(cs)


def _fin(o):
    if o.status == 'sat' and o.cex is not None:
        try:
            o.reproduced, o.detail = replay(o.cex)
        except Exception as e:
            o.reproduced, o.detail = False, 'replay crashed: %r' % (e,)
        if o.reproduced:
            o.known_key = classify(o.cex)
    return o


def jobs(tier, seed):
    out = []
    fam = C.lattice_family(tier, seed)
    for lat in fam:
        n = lat['nx'] * lat['ny']
        out.append({'name': 'lemma bin1d_vec on xs/ys of %s' % lat['name'], 'kind': 'lemma', 'lat': lat, 'tier': tier, 'cost': 50})
        out.append({'name': 'point %s' % lat['name'], 'kind': 'point', 'lat': lat, 'tier': tier, 'cost': n})
    for lat in fam[:(3 if tier == 'quick' else 12)]:
        out.append({'name': 'catalog %s' % lat['name'], 'kind': 'catalog', 'lat': lat, 'tier': tier,
                    'n_events': 2 if tier == 'quick' else 3, 'cost': 30})
        out.append({'name': 'cartesian %s' % lat['name'], 'kind': 'cartesian', 'lat': lat, 'tier': tier})
    for j in out:
        j['wall'] = 600 if tier == 'quick' else 3000
    return out


def run_job(job):
    snap = C.stats_snapshot()
    res = globals()['_job_' + job['kind']](job)
    res.update(C.stats_delta(snap))
    return res


def _twin_region(lat, abstract_bin1d=False):
    """region built by the re-imported code. With abstract_bin1d the region's calls bin1d_vec(points, xs|ys) are
    replaced by the *contract* that the lemma jobs prove for the real bin1d_vec on exactly these edge arrays
    (assume-guarantee split: the FP-hard 1-D kernel and the 2-D table logic are decided separately)."""
    L = C.twin()
    regions = L.load('csep.core.regions')
    models = L.load('csep.models')
    reg = C.build_region(regions, models, lat, np_mod=symnp)
    if abstract_bin1d:
        from . import C02
        real_b1 = regions.bin1d_vec
        xs, ys = _axes(lat)

        def contract_bin1d(p, bins, tol=None, right_continuous=False):
            edges = None
            if bins is reg.xs:
                edges = xs
            elif bins is reg.ys:
                edges = ys
            if edges is None or right_continuous or tol is not None:
                return real_b1(p, bins, tol=tol, right_continuous=right_continuous)
            pa = symnp.asarray(p)
            out = np.empty(pa.a.shape, dtype=object)
            for pos in np.ndindex(*pa.a.shape):
                v = pa.a[pos]
                vt = v.t if isinstance(v, SFP) else fpconst(float(v))
                # bin1d_vec is a function: the same value on the same edges gets the same abstract index
                cache = core.CTX.notes.setdefault('_bin_contract', {})
                key = (vt.get_id(), id(edges))
                if key not in cache:
                    r = z3.BitVec(core.fresh_name('bin'), 64)
                    core.assume(z3.Not(C02._violation_terms(edges, vt, r, False, 'f8')))
                    cache[key] = r
                out[pos] = SBV(cache[key])
            return symnp.SArr(out, core.DTI)
        regions.bin1d_vec = contract_bin1d
    return L, reg


def _in_core_terms(lat, lon, la):
    """z3: list of (cell index, in-core predicate), and the 'near some cell' predicate"""
    cells, x0f, y0f = _cells(lat)
    cores, near = [], []
    for c in cells:
        (i, x0, x1, y0, y1, kx, ky) = c
        tx_lo, tx_hi, ty_lo, ty_hi = _bands(lat, c, x0f, y0f)
        cores.append((i, z3.And(C.fp_geq(lon, x0), C.fp_below(lon, x1 - tx_hi), C.fp_geq(la, y0), C.fp_below(la, y1 - ty_hi))))
        near.append(z3.And(C.fp_geq(lon, x0 - tx_lo), C.fp_below(lon, x1), C.fp_geq(la, y0 - ty_lo), C.fp_below(la, y1)))
    return cores, z3.Or(near) if near else z3.BoolVal(False)


def _point_queries(lat, lon, la, raised, idx_t, masked_t):
    """negated oracle for one point, split into small queries: [(name, z3 formula)].
    raised: python bool (path kind); idx_t: BV term or None; masked_t: z3 Bool"""
    cores, near = _in_core_terms(lat, lon, la)
    qs = []
    for (i, pred) in cores:
        if raised:
            qs.append(('cell %d core => index' % i, pred))
        else:
            qs.append(('cell %d core => index %d, not masked' % (i, i), z3.And(pred, z3.Or(idx_t != i, masked_t))))
    if not raised:
        qs.append(('returned index => near a cell, not masked', z3.Or(z3.Not(near), masked_t)))
    else:
        qs.append(('raises <=> masked', z3.Not(masked_t)))
    return qs


def _job_lemma(job):
    """the 1-D contract used by the 2-D jobs, proven for the real bin1d_vec on this region's own edge arrays"""
    from . import C02
    lat = job['lat']
    reg = _real_region(lat)
    obs = []
    Ex, Ey = _axes(lat)
    for axis, edges, oe in (('xs', [float(x) for x in reg.xs], Ex), ('ys', [float(x) for x in reg.ys], Ey)):
        o = Obligation('region.%s equals the lattice edge values' % axis, 'unsat' if edges == oe else 'sat', kind='twin')
        o.detail = '%r vs %r' % (edges, oe)
        obs.append(o.as_dict())
        if len(edges) != len(oe):
            continue
        sub = {'kind': 'bin', 'edges': edges, 'oracle_edges': oe, 'rc': False, 'dt': 'f8', 'tier': job['tier'], 'name': axis}
        r = C02._run_bin(sub)
        for o in r['obligations']:
            o['name'] = 'lemma %s: %s' % (axis, o['name'])
            if o['status'] == 'sat' and o.get('reproduced') and o['kind'] == 'property':
                # turn the 1-D witness into a 2-D point of this region and replay it there
                v = o['cex']['v']
                others = [float(x) + lat['dh'] / 4 for x in (reg.ys if axis == 'xs' else reg.xs)]
                hit = None
                for w in others:
                    cex = {'kind': 'point', 'lat': lat, 'lon': v if axis == 'xs' else w, 'lat_v': w if axis == 'xs' else v}
                    ok, detail = replay(cex)
                    if ok:
                        hit = (cex, detail)
                        break
                if hit:
                    o['cex'], o['detail'] = hit
                    o['known_key'] = classify(hit[0])
                else:
                    o['reproduced'] = True      # the 1-D kernel breaks its contract (C02's subject); 2-D effect not shown
                    o['cex'] = {'kind': 'edge1d', 'edges': edges, 'v': v, 'lat': lat}
                    o['known_key'] = 'first-edge-smaller-than-step@C02'
        obs += r['obligations']
    return {'obligations': obs, 'samples': [{'lattice': lat['name'], 'lemma': 'bin1d_vec contract on xs and ys, every finite float64'}]}


def _job_point(job):
    lat = job['lat']
    core.OPT['lazy_bounds'] = True
    L, reg = _twin_region(lat, abstract_bin1d=True)
    lon, la = z3.FP('lon', F64), z3.FP('lat', F64)
    TO = 100 if job['tier'] == 'quick' else 900

    def run():
        core.assume(C.fin(lon))
        core.assume(C.fin(la))
        lons, lats = symnp.asarray([SFP(lon)]), symnp.asarray([SFP(la)])
        try:
            idx = reg.get_index_of(lons, lats)
            raised = False
        except ValueError:
            idx = None
            raised = True
        m = reg.get_masked(lons, lats)
        return raised, idx, m
    paths, trunc = core.explore(run, max_paths=200)
    obs = []

    def cexf(mod):
        return {'kind': 'point', 'lat': lat, 'lon': core.fp_from_model(mod, lon), 'lat_v': core.fp_from_model(mod, la)}
    reached = False
    for i, P in enumerate(paths):
        # recorded assertions of the code (index in bounds): violated => the real code raises IndexError there
        for (cond, what, n) in P.notes.get('asserts', []):
            st, mod, t = C.solve([z3.Not(cond)], TO, P.pc[:n])
            obs.append(_fin(Obligation('path %d: %s cannot happen' % (i, what), st, t, cexf(mod) if st == 'sat' else None)))
        if P.kind == 'exc':
            st, mod, t = C.solve([], TO, P.pc)
            obs.append(_fin(Obligation('no unexpected exception (%s: %s)' % (P.exc_name(), P.exc), st, t,
                                       cexf(mod) if st == 'sat' else None)))
            continue
        raised, idx, m = P.value
        idx_t = None
        if not raised:
            e = idx.a.reshape(-1)[0]
            idx_t = e.t if isinstance(e, SBV) else z3.BitVecVal(int(e), 64)
        me = m.a.reshape(-1)[0]
        masked_t = me.t if core.is_sym(me) else z3.BoolVal(bool(me))
        K = _known_region(lat, lon, la)
        off = _off_band(lat, lon, la)
        qs = _point_queries(lat, lon, la, raised, idx_t, masked_t)
        for nm, q in qs:
            full = [q] if K is None else [q, z3.Not(K)]
            # off-band models first: there the contract is exact, so a model is a real behaviour
            st, mod, t = C.solve(full + [off], TO, P.pc)
            cand = False
            if st == 'unsat':
                st, mod, t2 = C.solve(full, TO, P.pc)
                t += t2
                cand = True
            obs.append(_fin(Obligation('path %d (%s): %s' % (i, 'raises' if raised else 'returns', nm), st, t,
                                       cexf(mod) if st == 'sat' else None, candidate_only=cand)))
        if K is not None:
            st, mod, t = C.solve([z3.Or([q for _, q in qs]), K, off], TO, P.pc)
            if st == 'sat':
                o = _fin(Obligation('path %d: finding class single-edge-axis' % i, st, t, cexf(mod)))
                obs.append(o)
        if not reached:
            o = _reach(P, lat, lon, la, raised, idx_t)
            if o.status == 'sat':
                reached = True
                obs.append(o)
    if not reached:
        obs.append(Obligation('reachability witness', 'unsat', kind='reach'))
    return {'obligations': [o.as_dict() for o in obs],
            'samples': [{'lattice': lat['name'], 'cells': len(lat['origins']), 'point': 'symbolic (lon, lat), every finite pair',
                         'paths': len(paths)}]}


def _active():
    from symx.harness import active_keys
    return active_keys(ID)


def _reach(P, lat, lon, la, raised, idx_t):
    st, mod, t = C.solve([], 60, P.pc)
    o = Obligation('reachability witness', st, t, kind='reach')
    if st == 'sat':
        x, y = core.fp_from_model(mod, lon), core.fp_from_model(mod, la)
        reg = _real_region(lat)
        try:
            got = int(reg.get_index_of(np.array([x]), np.array([y]))[0])
        except ValueError:
            got = None
        want = None if raised else core.int_from_model(mod, idx_t)
        o.reproduced = got == want
        o.detail = 'point (%r, %r): symbolic %r real %r' % (x, y, want, got)
    return o


def _job_cartesian(job):
    """get_cartesian places data[i] at the bounding-box position of cell i and NaN elsewhere (symbolic data)"""
    lat = job['lat']
    L, reg = _twin_region(lat)
    n = len(lat['origins'])
    ds = [z3.FP('d%d' % i, F64) for i in range(n)]

    def run():
        for d in ds:
            core.assume(C.fin(d))
        return reg.get_cartesian(symnp.asarray([SFP(d) for d in ds]))
    paths, _ = core.explore(run)
    obs = []
    cells, x0f, y0f = _cells(lat)
    pos = {(ky, kx): i for (i, x0, x1, y0, y1, kx, ky) in cells}
    for k, P in enumerate(paths):
        if P.kind == 'exc':
            raise P.exc
        out = P.value
        vio = []
        ny, nx = out.shape
        for r in range(ny):
            for c in range(nx):
                e = out.a[r, c]
                et = e.t if isinstance(e, SFP) else fpconst(float(e))
                if (r, c) in pos:
                    vio.append(z3.Not(z3.fpEQ(et, ds[pos[(r, c)]])))
                else:
                    vio.append(z3.Not(z3.fpIsNaN(et)))
        st, mod, t = C.solve([z3.Or(vio)], 120, P.pc)
        cex = {'kind': 'cartesian', 'lat': lat, 'data': [core.fp_from_model(mod, d) for d in ds]} if st == 'sat' else None
        obs.append(_fin(Obligation('get_cartesian placement, path %d' % k, st, t, cex)))
    return {'obligations': [o.as_dict() for o in obs], 'samples': [{'lattice': lat['name'], 'data': 'symbolic per-cell values'}]}


def _job_catalog(job):
    """filter_spatial / spatial_counts agree with get_index_of / get_masked for N symbolic events"""
    lat = job['lat']
    n_ev = job['n_events']
    core.OPT['lazy_bounds'] = True
    L, reg = _twin_region(lat, abstract_bin1d=True)
    cats = L.load('csep.core.catalogs')
    lons = [z3.FP('lon%d' % i, F64) for i in range(n_ev)]
    lats = [z3.FP('lat%d' % i, F64) for i in range(n_ev)]
    dt = cats.CSEPCatalog.dtype
    TO = 200 if job['tier'] == 'quick' else 900

    def mkcat():
        rec = symnp.rec_empty(n_ev, dt)
        for i in range(n_ev):
            rec.cols['id'].a[i] = str(i).encode()
        rec.cols['longitude'] = symnp.asarray([SFP(x) for x in lons])
        rec.cols['latitude'] = symnp.asarray([SFP(x) for x in lats])
        return cats.CSEPCatalog(data=rec, region=reg, compute_stats=False)

    def run():
        for v in lons + lats:
            core.assume(C.fin(v))
        per = []
        for i in range(n_ev):
            try:
                per.append(reg.get_index_of(symnp.asarray([SFP(lons[i])]), symnp.asarray([SFP(lats[i])])).a[0])
            except ValueError:
                per.append(None)
        kept = mkcat().filter_spatial(in_place=False)
        kept_ids = [bytes(x) for x in kept.get_event_ids().tolist()]
        try:
            sc = mkcat().spatial_counts()
        except ValueError:
            sc = None
        return per, kept_ids, sc
    paths, trunc = core.explore(run, max_paths=3000)
    obs = []
    bad_paths = 0
    tsum = 0.0
    first_cex = None
    unknown = 0
    for k, P in enumerate(paths):
        if P.kind == 'exc':
            st, mod, t = C.solve([], TO, P.pc)
            cex = {'kind': 'catalog', 'lat': lat, 'points': [(core.fp_from_model(mod, a), core.fp_from_model(mod, b)) for a, b in zip(lons, lats)]} if st == 'sat' else None
            obs.append(_fin(Obligation('no unexpected exception (%s: %s)' % (P.exc_name(), P.exc), st, t, cex)))
            continue
        per, kept_ids, sc = P.value
        vio = []
        want_kept = [str(i).encode() for i, p in enumerate(per) if p is not None]
        structural_bad = kept_ids != want_kept
        if sc is None:
            structural_bad = structural_bad or all(p is not None for p in per)
        else:
            if any(p is None for p in per):
                structural_bad = True
            else:
                nn = len(lat['origins'])
                for c in range(nn):
                    cnt = z3.Sum([z3.If((p.t if isinstance(p, SBV) else z3.BitVecVal(int(p), 64)) == c, 1, 0) for p in per])
                    e = sc.a[c]
                    et = e.t if isinstance(e, SFP) else fpconst(float(e))
                    vio.append(z3.Not(z3.fpEQ(et, z3.fpToFP(core.RNE, z3.ToReal(cnt), F64))) if False else
                               z3.Or([z3.And(cnt == v, z3.Not(z3.fpEQ(et, fpconst(float(v))))) for v in range(n_ev + 1)]))
        q = [z3.BoolVal(True)] if structural_bad else ([z3.Or(vio)] if vio else [z3.BoolVal(False)])
        st, mod, t = C.solve(q, TO, P.pc)
        tsum += t
        if st == 'sat':
            cex = {'kind': 'catalog', 'lat': lat, 'points': [(core.fp_from_model(mod, a), core.fp_from_model(mod, b)) for a, b in zip(lons, lats)]}
            obs.append(_fin(Obligation('catalog-level agreement, path %d' % k, st, t, cex)))
        elif st != 'unsat':
            unknown += 1
    o = Obligation('filter_spatial / spatial_counts agree with the per-point lookup on all %d paths' % len(paths),
                   'unknown' if (unknown or trunc) else 'unsat', tsum, note='%d paths%s' % (len(paths), ' (truncated)' if trunc else ''))
    obs.append(o)
    return {'obligations': [o.as_dict() for o in obs],
            'samples': [{'lattice': lat['name'], 'events': n_ev, 'coordinates': 'symbolic', 'paths': len(paths)}]}
