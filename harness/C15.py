"""C15 -- time conversions exact to the millisecond and order-preserving (DESIGN 4/C15)."""
import datetime as rdt
from fractions import Fraction

import z3

from symx import core, symdt
from symx.core import SInt, SBV, EFP
from symx.harness import Obligation
from . import common as C

ID = 'C15'
KNOWN_KEYS = {}
M_LO, M_HI = -2208988800000, 7258118400000          # 1900-01-01 .. 2200-01-01 in ms
META = {
    'functions': ['csep/utils/time_utils.py epoch_time_to_utc_datetime', 'csep/utils/time_utils.py datetime_to_utc_epoch',
                  'csep/utils/time_utils.py strptime_to_utc_datetime', 'csep/utils/time_utils.py strptime_to_utc_epoch',
                  'csep/utils/time_utils.py parse_string_format', 'csep/utils/time_utils.py decimal_year',
                  'csep/utils/time_utils.py decimal_year_to_utc_datetime', 'csep/utils/time_utils.py decimal_year_to_utc_epoch'],
    'theory': 'Int (instants as integer microseconds, civil fields by integer div/mod) + float64 either bit-exact '
              '(QF_BVFP, datetime->epoch leg) or as the per-binade rounding envelope over LIRA (epoch->datetime, '
              'decimal year); envelope sat answers are candidates and only count if they replay',
    'bounds': {'quick': 'every integer millisecond / microsecond instant in 1900-01-01..2200-01-01; naive and UTC-aware; '
                        'string classes {sep " "/"T"} x {fraction present/absent} x {+00:00 present/absent}; decimal year '
                        'per (leap?, month) fork',
               'thorough': 'same range; adds the monolithic FP64 epoch->datetime query split by binade'},
    'outside': ['instants outside 1900..2200', 'non-UTC time zones', 'os.name == "nt" branch',
                'byte-level strptime/str formatting (contract: placeholder strings with real syntax)'],
    'stubs': ['datetime/timedelta/timezone/calendar model (symx/symdt.py): fromtimestamp follows CPython '
              '_PyTime_DoubleToDenominator; total_seconds = correctly rounded us/1e6; conformance-tested against the real '
              'datetime on boundary and seeded instants at the start of every run',
              'time strings: placeholder str with real syntax, symbolic instant'],
    'assumptions': ['M_LO <= ms <= M_HI', 'tzinfo is None or UTC'],
}


def _tw():
    core.ENV.update({'kmin': -45, 'kmax': 46})      # magnitudes in these functions: 1e-12 .. 3.2e13
    L = C.twin(models={'datetime': symdt.module, 'calendar': symdt.calendar})
    return L.load('csep.utils.time_utils')


# ---- replay on the real package ------------------------------------------------------------------------

def _real_dt(us, aware):
    d = rdt.datetime(1970, 1, 1) + rdt.timedelta(microseconds=int(us))
    return d.replace(tzinfo=rdt.timezone.utc) if aware else d


def _fmt(us, sep, frac, suffix):
    d = _real_dt(us, False)
    s = d.strftime('%Y-%m-%d' + sep + '%H:%M:%S')
    if frac:
        s += '.%06d' % d.microsecond
    if suffix:
        s += '+00:00'
    return s


def replay(cex):
    C.real_csep()
    from csep.utils import time_utils as tu
    k = cex['kind']
    if k == 'e2d':
        m = int(cex['m'])
        got = tu.epoch_time_to_utc_datetime(m)
        want = _real_dt(m * 1000, True)
        bad = got != want or got.tzinfo is None
        return bad, 'epoch_time_to_utc_datetime(%d) = %s, exact instant %s' % (m, got, want)
    if k == 'd2e':
        msgs = []
        rs = []
        for us in cex['us']:
            us = int(us)
            r = tu.datetime_to_utc_epoch(_real_dt(us, cex['aware']))
            rs.append(r)
            if us % 1000 == 0 and r != us // 1000:
                msgs.append('datetime_to_utc_epoch(%s) = %d, exact %d' % (_real_dt(us, cex['aware']), r, us // 1000))
            elif abs(r * 1000 - us) >= 1000:
                msgs.append('datetime_to_utc_epoch(%s) = %d is not within 1 ms of %s us' % (_real_dt(us, cex['aware']), r, us))
        if len(rs) == 2 and cex['us'][0] <= cex['us'][1] and rs[0] > rs[1]:
            msgs.append('not monotone: %s' % (rs,))
        return bool(msgs), '; '.join(msgs) or 'ok %s' % rs
    if k == 'round':
        m = int(cex['m'])
        r = tu.datetime_to_utc_epoch(tu.epoch_time_to_utc_datetime(m))
        return r != m, 'datetime_to_utc_epoch(epoch_time_to_utc_datetime(%d)) = %d' % (m, r)
    if k == 'dround':
        us = int(cex['us'])
        d = _real_dt(us, True)
        d2 = tu.epoch_time_to_utc_datetime(tu.datetime_to_utc_epoch(d))
        return d2 != d, 'epoch_time_to_utc_datetime(datetime_to_utc_epoch(%s)) = %s' % (d, d2)
    if k == 'str':
        us = int(cex['us'])
        s = _fmt(us, cex['sep'], cex['frac'], cex['suffix'])
        if cex.get('fmt'):
            r = tu.strptime_to_utc_epoch(s, format=cex['fmt'])
        else:
            r = tu.strptime_to_utc_epoch(s)
        want = tu.datetime_to_utc_epoch(_real_dt(us, False))
        exact = us // 1000 if us % 1000 == 0 else None
        bad = r != want or (exact is not None and r != exact)
        return bad, 'strptime_to_utc_epoch(%r) = %d; datetime_to_utc_epoch of the same instant = %d; exact %s' % (s, r, want, exact)
    if k == 'strwrite':
        m = int(cex['m'])
        s = str(tu.epoch_time_to_utc_datetime(m).replace(tzinfo=None)).replace(' ', 'T')
        try:
            r = tu.strptime_to_utc_epoch(s, format='%Y-%m-%dT%H:%M:%S.%f')
        except ValueError:
            r = tu.strptime_to_utc_epoch(s, format='%Y-%m-%dT%H:%M:%S')
        return r != m, 'write/read of %d through %r gives %d' % (m, s, r)
    if k == 'decyear':
        u1, u2 = int(cex['us'][0]), int(cex['us'][1])
        d1 = tu.decimal_year(_real_dt(u1, cex.get('aware', False)))
        d2 = tu.decimal_year(_real_dt(u2, cex.get('aware', False)))
        bad = (u2 - u1 >= 1000 and not d2 > d1) or (u2 >= u1 and d2 < d1)
        return bad, 'decimal_year(%s)=%r decimal_year(%s)=%r' % (_real_dt(u1, False), d1, _real_dt(u2, False), d2)
    if k == 'decinv':
        u = int(cex['us'])
        d = _real_dt(u, False)
        back = tu.decimal_year_to_utc_datetime(tu.decimal_year(d))
        err = abs((back.replace(tzinfo=None) - d) / rdt.timedelta(microseconds=1))
        return err >= 1000, 'decimal_year_to_utc_datetime(decimal_year(%s)) = %s (%d us off)' % (d, back, err)
    raise ValueError(k)


def _fin(o):
    if o.status == 'sat' and o.cex is not None:
        try:
            o.reproduced, o.detail = replay(o.cex)
        except Exception as e:
            o.reproduced, o.detail = False, 'replay crashed: %r' % (e,)
    return o


# ---- jobs ------------------------------------------------------------------------------------------------

def jobs(tier, seed):
    out = [{'name': 'conformance', 'kind': 'conf'},
           {'name': 'epoch->datetime exact (envelope)', 'kind': 'e2d'},
           {'name': 'datetime->epoch naive', 'kind': 'd2e', 'aware': False, 'mode': 'env'},
           {'name': 'datetime->epoch aware', 'kind': 'd2e', 'aware': True, 'mode': 'env'},
           {'name': 'datetime->epoch monotone', 'kind': 'd2e_mono', 'mode': 'env'},
           {'name': 'epoch round trip', 'kind': 'round'},
           {'name': 'datetime round trip', 'kind': 'dround'},
           {'name': 'write/read time string', 'kind': 'strwrite'}]
    for sep in (' ', 'T'):
        for frac in (True, False):
            for suffix in (False, True):
                if sep == 'T' and suffix:
                    continue
                out.append({'name': 'string sep=%r frac=%s suffix=%s' % (sep, frac, suffix), 'kind': 'str', 'sep': sep,
                            'frac': frac, 'suffix': suffix})
    for leap in (False, True):
        for month in range(1, 13):
            for part in ('strict', 'near'):
                if tier == 'quick' and part == 'strict' and month not in (2, 3, 12):
                    continue
                out.append({'name': 'decimal year %s leap=%s month=%d' % (part, leap, month), 'kind': 'decmono',
                            'leap': leap, 'month': month, 'part': part, 'cost': 10})
    out.append({'name': 'decimal year across new year', 'kind': 'decyearend'})
    for leap in (False, True):
        for month in range(1, 13):
            if tier == 'quick' and month not in (1, 2, 6, 12):
                continue
            out.append({'name': 'decimal year inverse leap=%s month=%d' % (leap, month), 'kind': 'decinv', 'leap': leap,
                        'month': month, 'cost': 20})
    for j in out:
        j['tier'] = tier
        j['wall'] = 450 if tier == 'quick' else 3000
    return out


def run_job(job):
    snap = C.stats_snapshot()
    res = globals()['_job_' + job['kind']](job)
    res.update(C.stats_delta(snap))
    return res


def _ms_var(mode, name='m'):
    if mode == 'fp':
        t = z3.BitVec(name, 64)
        return SBV(t), t
    t = z3.Int(name)
    return SInt(t), t


def _job_conf(job):
    """conformance of the datetime model against the real datetime (boundary + seeded instants)"""
    import random
    tu = _tw()
    C.real_csep()
    from csep.utils import time_utils as rtu
    rng = random.Random(20260101)
    ms = [0, 1, -1, 999, 1000, -999, -1000, -1001, M_LO, M_HI, -271581183988, 951782400000, 4102444800000 - 1,
          -2208988800000 + 86399999, 1582934400000, 68256000001]
    ms += [rng.randrange(M_LO, M_HI) for _ in range(300)]
    bad = []
    core.MODE['float'] = 'fp'
    for m in ms:
        a = tu.epoch_time_to_utc_datetime(m)
        b = rtu.epoch_time_to_utc_datetime(m)
        if a._us != ((b.replace(tzinfo=None) - rdt.datetime(1970, 1, 1)) // rdt.timedelta(microseconds=1)) or str(a) != str(b):
            bad.append(('e2d', m, str(a), str(b)))
        for aware in (False, True):
            us = m * 1000 + rng.randrange(0, 1000)
            ra = tu.datetime_to_utc_epoch(symdt.datetime(_us=us, tzinfo=symdt.timezone.utc if aware else None))
            rb = rtu.datetime_to_utc_epoch(_real_dt(us, aware))
            if ra != rb:
                bad.append(('d2e', us, ra, rb))
        d = _real_dt(m * 1000 + rng.randrange(0, 1000), False)
        sd = symdt.datetime._from_real(d)
        if (sd.year, sd.month, sd.day, sd.hour, sd.minute, sd.second, sd.microsecond) != \
                (d.year, d.month, d.day, d.hour, d.minute, d.second, d.microsecond):
            bad.append(('civil', str(d)))
        if tu.decimal_year(sd) != rtu.decimal_year(d):
            bad.append(('decyear', str(d), tu.decimal_year(sd), rtu.decimal_year(d)))
        dy = rtu.decimal_year(d)
        x = tu.decimal_year_to_utc_datetime(dy)
        y = rtu.decimal_year_to_utc_datetime(dy)
        if str(x) != str(y):
            bad.append(('decinv', dy, str(x), str(y)))
        td = rng.random() * 1e9
        if symdt.timedelta(microseconds=td)._us != rdt.timedelta(microseconds=td) // rdt.timedelta(microseconds=1):
            bad.append(('td_us', td))
        if symdt.timedelta(seconds=td / 1e3)._us != rdt.timedelta(seconds=td / 1e3) // rdt.timedelta(microseconds=1):
            bad.append(('td_s', td))
    o = Obligation('datetime model == real datetime on %d instants' % len(ms), 'unsat' if not bad else 'sat', kind='twin')
    o.detail = repr(bad[:5])
    return {'obligations': [o.as_dict()], 'samples': [{'conformance instants': ms[:6]}]}


def _job_e2d(job):
    core.MODE['float'] = 'env'
    tu = _tw()
    m, mt = _ms_var('env')

    def run():
        core.assume(z3.And(mt >= M_LO, mt <= M_HI))
        return tu.epoch_time_to_utc_datetime(m)
    paths, _ = core.explore(run)
    obs = []
    for i, P in enumerate(paths):
        if P.kind == 'exc':
            st, mod, t = C.solve([], 120, P.pc)
            cex = {'kind': 'e2d', 'm': core.int_from_model(mod, mt)} if st == 'sat' else None
            obs.append(_fin(Obligation('no exception (%s)' % P.exc_name(), st, t, cex, candidate_only=True)))
            continue
        dt = P.value
        us = dt._us
        ut = us.t if core.is_sym(us) else z3.IntVal(us)
        ok_tz = dt.tzinfo is not None and str(dt.tzinfo) == 'UTC'
        st, mod, t = C.solve([ut != 1000 * mt] if ok_tz else [], 300, P.pc)
        cex = {'kind': 'e2d', 'm': core.int_from_model(mod, mt)} if st == 'sat' else None
        obs.append(_fin(Obligation('instant == 1000*m us and tz UTC, path %d' % i, st, t, cex, candidate_only=True)))
        if i == 0:
            st, mod, t = C.solve([], 60, P.pc)
            o = Obligation('reachability witness', st, t, kind='reach')
            if st == 'sat':
                mv = core.int_from_model(mod, mt)
                C.real_csep()
                from csep.utils import time_utils as rtu
                got = rtu.epoch_time_to_utc_datetime(mv)
                o.reproduced = got == _real_dt(mv * 1000, True)
                o.detail = 'm=%d real=%s' % (mv, got)
            obs.append(o)
    return {'obligations': [o.as_dict() for o in obs],
            'samples': [{'m': 'symbolic integer ms in [%d, %d]' % (M_LO, M_HI), 'paths': len(paths)}]}


def _d2e_common(mode, aware, two=False):
    core.MODE['float'] = mode
    tu = _tw()
    U_LO, U_HI = M_LO * 1000, M_HI * 1000
    vs = []
    for nm in (['u1', 'u2'] if two else ['u']):
        if mode == 'fp':
            t = z3.BitVec(nm, 64)
            vs.append((SBV(t), t))
        else:
            t = z3.Int(nm)
            vs.append((SInt(t), t))
    tz = symdt.timezone.utc if aware else None

    def run():
        outs = []
        for v, t in vs:
            core.assume(z3.And(t >= U_LO, t <= U_HI))
        if two:
            core.assume(vs[0][1] <= vs[1][1])
        for v, t in vs:
            outs.append(tu.datetime_to_utc_epoch(symdt.datetime(_us=v, tzinfo=tz)))
        return outs
    paths, _ = core.explore(run)
    return paths, vs


def _it(x, mode):
    if core.is_sym(x):
        return x.t
    return z3.BitVecVal(int(x), 64) if mode == 'fp' else z3.IntVal(int(x))


def _job_d2e(job):
    """Integer/envelope encoding first (unsat there is a proof); if it only yields candidates that do not
    replay, the bit-exact FP64 encoding is asked for a real witness."""
    r = _job_d2e_mode(job, job['mode'])
    if any(o['status'] == 'sat' and not o.get('reproduced') and o.get('kind') == 'property' for o in r['obligations']):
        r2 = _job_d2e_mode(job, 'fp', to=150)
        for o in r2['obligations']:
            o['name'] = 'FP64 exact: ' + o['name']
        r['obligations'] = [o for o in r['obligations'] if not (o['status'] == 'sat' and not o.get('reproduced'))] + r2['obligations']
    return r


def _job_d2e_mode(job, mode, to=300):
    paths, vs = _d2e_common(mode, job['aware'])
    (u, ut) = vs[0]
    obs = []
    for i, P in enumerate(paths):
        if P.kind == 'exc':
            st, mod, t = C.solve([], 120, P.pc)
            cex = {'kind': 'd2e', 'us': [core.int_from_model(mod, ut)], 'aware': job['aware']} if st == 'sat' else None
            obs.append(_fin(Obligation('no exception (%s: %s)' % (P.exc_name(), P.exc), st, t, cex)))
            continue
        r = _it(P.value[0], mode)
        if mode == 'fp':
            k = z3.BitVecVal(1000, 64)
            whole = (ut % k) == 0
            vio = z3.Or(z3.And(whole, r * k != ut), r * k - ut >= 1000, ut - r * k >= 1000)
        else:
            whole = ut % 1000 == 0
            vio = z3.Or(z3.And(whole, r * 1000 != ut), r * 1000 - ut >= 1000, ut - r * 1000 >= 1000)
        st, mod, t = C.solve([vio], to, P.pc)
        cex = {'kind': 'd2e', 'us': [core.int_from_model(mod, ut)], 'aware': job['aware']} if st == 'sat' else None
        obs.append(_fin(Obligation('whole ms exact, finer within 1 ms, path %d' % i, st, t, cex, candidate_only=(mode != 'fp'))))
        if i == 0:
            st, mod, t = C.solve([], 60, P.pc)
            o = Obligation('reachability witness', st, t, kind='reach')
            if st == 'sat':
                uv = core.int_from_model(mod, ut)
                want = core.int_from_model(mod, r)
                C.real_csep()
                from csep.utils import time_utils as rtu
                got = rtu.datetime_to_utc_epoch(_real_dt(uv, job['aware']))
                o.reproduced = got == want
                o.detail = 'us=%d symbolic=%d real=%d' % (uv, want, got)
            obs.append(o)
    return {'obligations': [o.as_dict() for o in obs],
            'samples': [{'datetime': 'symbolic us instant, every phase, %s' % ('UTC-aware' if job['aware'] else 'naive')}]}


def _job_d2e_mono(job):
    mode = job['mode']
    paths, vs = _d2e_common(mode, True, two=True)
    obs = []
    for i, P in enumerate(paths):
        if P.kind == 'exc':
            continue
        r1, r2 = _it(P.value[0], mode), _it(P.value[1], mode)
        st, mod, t = C.solve([r1 > r2], 300, P.pc)
        cex = {'kind': 'd2e', 'us': [core.int_from_model(mod, vs[0][1]), core.int_from_model(mod, vs[1][1])],
               'aware': True} if st == 'sat' else None
        obs.append(_fin(Obligation('u1 <= u2 => epoch1 <= epoch2, path %d' % i, st, t, cex, candidate_only=(mode != 'fp'))))
    return {'obligations': [o.as_dict() for o in obs], 'samples': [{'pair': 'two symbolic instants u1 <= u2'}]}


def _job_round(job):
    core.MODE['float'] = 'env'
    tu = _tw()
    m, mt = _ms_var('env')

    def run():
        core.assume(z3.And(mt >= M_LO, mt <= M_HI))
        return tu.datetime_to_utc_epoch(tu.epoch_time_to_utc_datetime(m))
    paths, _ = core.explore(run)
    obs = []
    for i, P in enumerate(paths):
        if P.kind == 'exc':
            st, mod, t = C.solve([], 120, P.pc)
            cex = {'kind': 'round', 'm': core.int_from_model(mod, mt)} if st == 'sat' else None
            obs.append(_fin(Obligation('no exception (%s: %s)' % (P.exc_name(), P.exc), st, t, cex, candidate_only=True)))
            continue
        r = _it(P.value, 'env')
        st, mod, t = C.solve([r != mt], 300, P.pc)
        cex = {'kind': 'round', 'm': core.int_from_model(mod, mt)} if st == 'sat' else None
        obs.append(_fin(Obligation('epoch -> datetime -> epoch == m, path %d' % i, st, t, cex, candidate_only=True)))
    return {'obligations': [o.as_dict() for o in obs], 'samples': [{'m': 'symbolic ms'}]}


def _job_dround(job):
    core.MODE['float'] = 'env'
    tu = _tw()
    m, mt = _ms_var('env')

    def run():
        core.assume(z3.And(mt >= M_LO, mt <= M_HI))
        d = symdt.datetime(_us=m * 1000, tzinfo=symdt.timezone.utc)
        return tu.epoch_time_to_utc_datetime(tu.datetime_to_utc_epoch(d))
    paths, _ = core.explore(run)
    obs = []
    for i, P in enumerate(paths):
        if P.kind == 'exc':
            st, mod, t = C.solve([], 120, P.pc)
            cex = {'kind': 'dround', 'us': core.int_from_model(mod, mt) * 1000} if st == 'sat' else None
            obs.append(_fin(Obligation('no exception (%s: %s)' % (P.exc_name(), P.exc), st, t, cex, candidate_only=True)))
            continue
        us = _it(P.value._us, 'env')
        st, mod, t = C.solve([us != mt * 1000], 300, P.pc)
        cex = {'kind': 'dround', 'us': core.int_from_model(mod, mt) * 1000} if st == 'sat' else None
        obs.append(_fin(Obligation('whole-ms datetime -> epoch -> datetime identity, path %d' % i, st, t, cex,
                                   candidate_only=True)))
    return {'obligations': [o.as_dict() for o in obs], 'samples': [{'datetime': 'symbolic whole-ms instant'}]}


def _job_str(job):
    """parsing a time string of each syntactic class agrees with datetime_to_utc_epoch of the same instant"""
    core.MODE['float'] = 'fp'
    tu = _tw()
    t = z3.BitVec('u', 64)
    u = SBV(t)
    sep, frac, suffix = job['sep'], job['frac'], job['suffix']
    fmt = None
    if sep == 'T':
        fmt = '%Y-%m-%dT%H:%M:%S' + ('.%f' if frac else '')

    def run():
        core.assume(z3.And(t >= M_LO * 1000, t <= M_HI * 1000))
        if not frac:
            core.assume((t % z3.BitVecVal(10 ** 6, 64)) == 0)
        s = symdt.placeholder(u, sep, frac, suffix)
        a = tu.strptime_to_utc_epoch(s, format=fmt) if fmt else tu.strptime_to_utc_epoch(s)
        b = tu.datetime_to_utc_epoch(symdt.datetime(_us=u))
        d = tu.strptime_to_utc_datetime(s, format=fmt) if fmt else tu.strptime_to_utc_datetime(s)
        return a, b, d
    paths, _ = core.explore(run)
    obs = []
    for i, P in enumerate(paths):
        if P.kind == 'exc':
            st, mod, tt = C.solve([], 120, P.pc)
            cex = {'kind': 'str', 'us': core.int_from_model(mod, t), 'sep': sep, 'frac': frac, 'suffix': suffix, 'fmt': fmt} if st == 'sat' else None
            obs.append(_fin(Obligation('no exception (%s: %s)' % (P.exc_name(), P.exc), st, tt, cex)))
            continue
        a, b, d = P.value
        at, bt = _it(a, 'fp'), _it(b, 'fp')
        dus = _it(d._us, 'fp')
        vio = z3.Or(at != bt, dus != t, z3.BoolVal(d.tzinfo is None or str(d.tzinfo) != 'UTC'))
        st, mod, tt = C.solve([vio], 300, P.pc)
        cex = {'kind': 'str', 'us': core.int_from_model(mod, t), 'sep': sep, 'frac': frac, 'suffix': suffix, 'fmt': fmt} if st == 'sat' else None
        obs.append(_fin(Obligation('parse agrees with the instant, path %d' % i, st, tt, cex)))
    return {'obligations': [o.as_dict() for o in obs],
            'samples': [{'string class': {'sep': sep, 'fraction': frac, '+00:00': suffix}, 'instant': 'symbolic'}]}


def _job_strwrite(job):
    """the write_ascii time path: str(epoch->datetime naive).replace(' ','T') parsed back gives m"""
    core.MODE['float'] = 'env'
    tu = _tw()
    m, mt = _ms_var('env')

    def run():
        core.assume(z3.And(mt >= M_LO, mt <= M_HI))
        s = str(tu.epoch_time_to_utc_datetime(m).replace(tzinfo=None)).replace(' ', 'T')
        try:
            return tu.strptime_to_utc_epoch(s, format='%Y-%m-%dT%H:%M:%S.%f')
        except ValueError:
            return tu.strptime_to_utc_epoch(s, format='%Y-%m-%dT%H:%M:%S')
    paths, _ = core.explore(run)
    obs = []
    for i, P in enumerate(paths):
        if P.kind == 'exc':
            st, mod, t = C.solve([], 120, P.pc)
            cex = {'kind': 'strwrite', 'm': core.int_from_model(mod, mt)} if st == 'sat' else None
            obs.append(_fin(Obligation('no exception (%s: %s)' % (P.exc_name(), P.exc), st, t, cex, candidate_only=True)))
            continue
        r = _it(P.value, 'env')
        st, mod, t = C.solve([r != mt], 300, P.pc)
        cex = {'kind': 'strwrite', 'm': core.int_from_model(mod, mt)} if st == 'sat' else None
        obs.append(_fin(Obligation('written time string parses back to m, path %d' % i, st, t, cex, candidate_only=True)))
    return {'obligations': [o.as_dict() for o in obs], 'samples': [{'m': 'symbolic ms', 'paths': len(paths)}]}


# ---- decimal year (rounding envelope) -------------------------------------------------------------------
# A symbolic instant is given by its civil fields (year symbolic with fixed leap-ness, month concrete, the rest
# symbolic), so the instant is a *linear* function of the fields and the model never has to invert the calendar.

_DIM = lambda leap, month: [0, 31, 29 if leap else 28, 31, 30, 31, 30, 31, 31, 30, 31, 30, 31][month]


def _leap_term(y):
    return z3.And(y % 4 == 0, z3.Or(y % 100 != 0, y % 400 == 0))


class _Inst:
    def __init__(self, tag, month, leap=None, year=None):
        self.y = z3.Int(tag + '_y') if year is None else year
        self.month = month
        self.leap = leap
        self.d, self.h, self.mi, self.s, self.us = [z3.Int(tag + n) for n in ('_d', '_h', '_mi', '_s', '_us')]

    def assume(self):
        y = self.y
        core.assume(z3.And(y >= 1900, y < 2200))
        if self.leap is not None:
            core.assume(_leap_term(y) if self.leap else z3.Not(_leap_term(y)))
            core.assume(self.d <= _DIM(self.leap, self.month))
        core.assume(z3.And(self.d >= 1, self.d <= 31, self.h >= 0, self.h <= 23, self.mi >= 0, self.mi <= 59,
                           self.s >= 0, self.s <= 59, self.us >= 0, self.us <= 999999))

    def dt(self):
        return symdt.datetime(SInt(self.y), self.month, SInt(self.d), SInt(self.h), SInt(self.mi), SInt(self.s), SInt(self.us))

    def real_us(self, mod):
        v = lambda t: core.int_from_model(mod, t)
        r = rdt.datetime(v(self.y), self.month, v(self.d), v(self.h), v(self.mi), v(self.s), v(self.us))
        return (r - rdt.datetime(1970, 1, 1)) // rdt.timedelta(microseconds=1)


def _job_decmono(job):
    """within one (leap?, month): t2 - t1 >= 1 ms => dec(t2) > dec(t1)   (part 'strict')
    and t1 <= t2 < t1 + 1 ms => dec(t2) >= dec(t1)                         (part 'near'; with the strict part this
    gives: never decreasing). The near part is split by the explorer on which civil fields coincide."""
    core.MODE['float'] = 'env'
    tu = _tw()
    leap, month, part = job['leap'], job['month'], job['part']
    y = z3.Int('y')
    a_, b_ = _Inst('a', month, leap, y), _Inst('b', month, leap, y)

    def run():
        a_.assume()
        b_.assume()
        da, db = a_.dt(), b_.dt()
        if part == 'strict':
            core.assume((db._us - da._us >= 1000).t)
        else:
            core.assume((db._us >= da._us).t)
            core.assume((db._us - da._us < 1000).t)
        for fa, fb in ((a_.d, b_.d), (a_.h, b_.h), (a_.mi, b_.mi), (a_.s, b_.s)):
            if not core.decide(fa == fb):
                break
        return tu.decimal_year(da), tu.decimal_year(db), da._us, db._us
    paths, _ = core.explore(run, max_paths=60)
    obs = []
    TO = 200 if job['tier'] == 'quick' else 1200
    for i, P in enumerate(paths):
        if P.kind == 'exc':
            raise P.exc
        a, b, ua, ub = P.value
        vio = (b.v <= a.v) if part == 'strict' else (b.v < a.v)
        st, mod, t = C.solve([vio], TO, P.pc)
        cex = {'kind': 'decyear', 'us': [a_.real_us(mod), b_.real_us(mod)]} if st == 'sat' else None
        nm = 'strictly increasing at 1 ms' if part == 'strict' else 'not decreasing within 1 ms'
        obs.append(_fin(Obligation('%s, path %d' % (nm, i), st, t, cex, candidate_only=True)))
    return {'obligations': [o.as_dict() for o in obs],
            'samples': [{'year': 'symbolic 1900..2199 (leap=%s)' % leap, 'month': month, 'part': part,
                         'two instants': 'symbolic day/hour/minute/second/microsecond', 'paths': len(paths)}]}


def _job_decyearend(job):
    """any instant of December of y1 against any instant of January of a later year y2: strictly increasing"""
    core.MODE['float'] = 'env'
    tu = _tw()
    a_, b_ = _Inst('a', 12), _Inst('b', 1)

    def run():
        a_.assume()
        b_.assume()
        core.assume(a_.y < b_.y)
        da, db = a_.dt(), b_.dt()
        return tu.decimal_year(da), tu.decimal_year(db), da._us, db._us
    paths, _ = core.explore(run, max_paths=50)
    obs = []
    for i, P in enumerate(paths):
        if P.kind == 'exc':
            raise P.exc
        a, b, ua, ub = P.value
        vio = z3.Or(z3.And(ub.t - ua.t >= 1000, b.v <= a.v), b.v < a.v)
        st, mod, t = C.solve([vio], 240, P.pc)
        cex = {'kind': 'decyear', 'us': [a_.real_us(mod), b_.real_us(mod)]} if st == 'sat' else None
        obs.append(_fin(Obligation('December of y1 vs January of y2 > y1: strict at 1 ms, never decreasing, path %d' % i,
                                   st, t, cex, candidate_only=True)))
    return {'obligations': [o.as_dict() for o in obs], 'samples': [{'pair': 'instant in Dec of y1, instant in Jan of y2>y1'}]}


def _job_decinv(job):
    """|decimal_year_to_utc_datetime(decimal_year(t)) - t| < 1 ms"""
    core.MODE['float'] = 'env'
    tu = _tw()
    leap, month = job['leap'], job['month']
    a_ = _Inst('a', month, leap)

    def run():
        a_.assume()
        d = a_.dt()
        dy = tu.decimal_year(d)
        # case split handed to the explorer (not an assumption): the integral part of the decimal year is the
        # year itself or - when the sum rounds up at the very end of a year - the next one
        fl = z3.ToInt(dy.v)
        if not core.decide(fl == a_.y):
            core.decide(fl == a_.y + 1)
        back = tu.decimal_year_to_utc_datetime(dy)
        return d._us, back._us
    paths, trunc = core.explore(run, max_paths=50)
    obs = []
    for i, P in enumerate(paths):
        if P.kind == 'exc':
            st, mod, t = C.solve([], 60, P.pc)
            cex = {'kind': 'decinv', 'us': a_.real_us(mod)} if st == 'sat' else None
            obs.append(_fin(Obligation('no exception (%s: %s)' % (P.exc_name(), P.exc), st, t, cex, candidate_only=True)))
            continue
        a, b = P.value
        diff = b.t - a.t
        st, mod, t = C.solve([z3.Or(diff >= 1000, diff <= -1000)], 240, P.pc)
        cex = {'kind': 'decinv', 'us': a_.real_us(mod)} if st == 'sat' else None
        obs.append(_fin(Obligation('inverse within 1 ms, path %d' % i, st, t, cex, candidate_only=True)))
    return {'obligations': [o.as_dict() for o in obs],
            'samples': [{'instant': 'symbolic fields in month %d of a symbolic %s year' % (month, 'leap' if leap else 'common')}]}
