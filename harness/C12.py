"""C12 -- catalog-forecast files decode to exactly the catalogs they encode (DESIGN 4/C12)."""
import csv as rcsv
import datetime as rdt
import os
import tempfile

import z3

from symx import core, symnp, symdt, symio
from symx.core import SInt, XR
from symx.harness import Obligation
from . import common as C

ID = 'C12'
KNOWN_KEYS = {}
META = {
    'functions': ['csep/core/catalogs.py CSEPCatalog.load_ascii_catalogs (generator and nested helpers)',
                  'csep/__init__.py load_stochastic_event_sets', 'csep/__init__.py load_catalog_forecast (dispatch)',
                  'csep/utils/time_utils.py strptime_to_utc_epoch'],
    'theory': 'integers for catalog ids, Booleans for "placeholder row", event identity by row tag; the file is a sequence of rows '
              'of fields delivered by the csv stub',
    'bounds': {'quick': 'files of L <= 4 rows with symbolic catalog id (0..4) and symbolic placeholder flag per row, with and '
                        'without header; times with and without fractional seconds',
               'thorough': 'L <= 5, ids 0..5'},
    'outside': ['longer files (no induction is claimed)', 'csv tokenising / quoting', 'ill-formed files other than decreasing ids'],
    'stubs': ['csv.reader: rows of fields (identity channel)', 'time strings: placeholders with real syntax and symbolic instant'],
    'assumptions': ['well-formed file: ids non-decreasing, a placeholder row is the only row of its catalog, fields of '
                    'non-placeholder rows are non-empty'],
}


class Cell(str):
    """csv cell that is '' when the row is a placeholder (symbolic flag), else the concrete text"""
    def __new__(cls, text, empty, value=None):
        o = str.__new__(cls, text)
        o.empty = empty
        o.value = value
        return o

    def __eq__(self, o):
        if isinstance(o, str) and not isinstance(o, Cell):
            if o == '':
                return core.SBool(self.empty)
            return core.SBool(z3.And(z3.Not(self.empty), z3.BoolVal(str.__eq__(self, o))))
        if o is None:
            return False
        return NotImplemented

    def __ne__(self, o):
        r = self.__eq__(o)
        return (~r) if isinstance(r, core.SBool) else (not r)
    __hash__ = str.__hash__

    def __bool__(self):
        return core.decide(z3.Not(self.empty))

    def lower(self):
        return self

    def __symfloat__(self):
        if core.decide(self.empty):
            raise ValueError('could not convert string to float: %r' % '')
        return self.value if self.value is not None else float(str.__str__(self))


class IdCell(str):
    def __new__(cls, sint):
        o = str.__new__(cls, '<catalog id>')
        o.sint = sint
        return o

    def __symint__(self):
        return self.sint

    def lower(self):
        return self


def _rows(L, header, frac_pattern):
    rows, ids, empt, times = [], [], [], []
    if header:
        rows.append(['lon', 'lat', 'mag', 'time_string', 'depth', 'catalog_id', 'event_id'])
    for i in range(L):
        cid = z3.Int('cid%d' % i)
        e = z3.Bool('placeholder%d' % i)
        t = z3.Int('t%d' % i)
        ids.append(cid)
        empt.append(e)
        times.append(t)
        tag = float(i + 1)
        ts = symdt.placeholder(SInt(t) * 1000, 'T', frac_pattern[i % len(frac_pattern)], False, ident=9100 + i)
        rows.append([Cell(repr(tag + 0.25), e), Cell(repr(tag + 0.5), e), Cell(repr(tag + 0.75), e), Cell(ts, e),
                     Cell(repr(tag + 0.125), e), IdCell(SInt(cid, dom=(0, 6))), Cell('ev%d' % i, e)])
    return rows, ids, empt, times


def _write_real(path, spec):
    """spec: list of (catalog_id, placeholder?, i, ms, frac?) -> a real csv file"""
    with open(path, 'w', newline='') as f:
        w = rcsv.writer(f)
        if spec['header']:
            w.writerow(['lon', 'lat', 'mag', 'time_string', 'depth', 'catalog_id', 'event_id'])
        for (cid, ph, i, ms, frac) in spec['rows']:
            if ph:
                w.writerow(['', '', '', '', '', cid, ''])
            else:
                d = rdt.datetime(1970, 1, 1) + rdt.timedelta(milliseconds=ms)
                ts = d.strftime('%Y-%m-%dT%H:%M:%S') + ('.%06d' % d.microsecond if frac else '')
                tag = float(i + 1)
                w.writerow([tag + 0.25, tag + 0.5, tag + 0.75, ts, tag + 0.125, cid, 'ev%d' % i])


def replay(cex):
    csep = C.real_csep()
    spec = cex
    d = tempfile.mkdtemp(prefix='c12-')
    path = os.path.join(d, 'forecast.csv')
    try:
        _write_real(path, spec)
        want = {}
        last = max([r[0] for r in spec['rows']]) if spec['rows'] else -1
        for k in range(last + 1):
            want[k] = []
        for (cid, ph, i, ms, frac) in spec['rows']:
            if not ph:
                want[cid].append((('ev%d' % i).encode(), ms if frac else ms, float(i + 1) + 0.5, float(i + 1) + 0.25, float(i + 1) + 0.125, float(i + 1) + 0.75))
        ids = [r[0] for r in spec['rows']]
        decreasing = any(b < a for a, b in zip(ids, ids[1:]))
        try:
            got = list(csep.load_stochastic_event_sets(path))
        except ValueError as e:
            return (not decreasing), 'load raised ValueError(%s); ids %r' % (e, ids)
        except Exception as e:
            return True, 'load raised %r; ids %r' % (e, ids)
        if decreasing:
            return True, 'file with decreasing catalog ids %r was accepted' % ids
        msgs = []
        if [c.catalog_id for c in got] != list(range(last + 1)):
            msgs.append('catalog ids %r, expected 0..%d' % ([c.catalog_id for c in got], last))
        for c in got:
            evs = [(e['id'], int(e['origin_time']), float(e['latitude']), float(e['longitude']), float(e['depth']), float(e['magnitude']))
                   for e in c.catalog]
            w = want.get(c.catalog_id)
            if w is not None and evs != w:
                msgs.append('catalog %r holds %r, file encodes %r' % (c.catalog_id, evs, w))
        return bool(msgs), ('rows %r: ' % spec['rows']) + ('; '.join(msgs) or 'decoded catalogs equal the encoded ones')
    finally:
        import shutil
        shutil.rmtree(d, ignore_errors=True)


def jobs(tier, seed):
    out = []
    Lmax = 4 if tier == 'quick' else 5
    for L in range(1, Lmax + 1):
        for header in (False, True):
            out.append({'name': 'file L=%d header=%s' % (L, header), 'kind': 'file', 'L': L, 'header': header, 'maxid': 4 if tier == 'quick' else 5,
                        'cost': 4 ** L})
    out.append({'name': 'decreasing ids rejected L=3', 'kind': 'decr', 'L': 3, 'header': False, 'maxid': 3, 'cost': 10})
    out.append({'name': 'load_catalog_forecast dispatch', 'kind': 'dispatch', 'cost': 2})
    for j in out:
        j['tier'] = tier
        j['wall'] = 1200 if tier == 'quick' else 3400
    return out


def _setup():
    vfs = symio.VFS()
    csvm = symio.CsvModel()
    L = C.twin(models={'datetime': symdt.module, 'calendar': symdt.calendar, 'csv': csvm, 'os': symio.OsModel(vfs)},
               extra_builtins={'open': vfs.open})
    return L, vfs


def run_job(job):
    snap = C.stats_snapshot()
    core.MODE['float'] = 'xr'
    core.OPT['lazy_bounds'] = True
    res = globals()['_job_' + job['kind']](job)
    res.update(C.stats_delta(snap))
    return res


def _decode(L_, vfs, rows, kw=None):
    csep = L_.load('csep')
    vfs.put_rows('/virtual/forecast.csv', rows)
    out = []
    for c in csep.load_stochastic_event_sets('/virtual/forecast.csv', compute_stats=False):
        data = c.catalog
        evs = []
        for i in range(len(data)):
            evs.append((data['id'].a[i], data['origin_time'].a[i], data['latitude'].a[i], data['longitude'].a[i],
                        data['depth'].a[i], data['magnitude'].a[i]))
        out.append((c.catalog_id, evs))
    return out


def _well_formed(ids, empt, times, maxid, monotone=True):
    cons = []
    for i in range(len(ids)):
        cons += [ids[i] >= 0, ids[i] <= maxid, times[i] >= -2208988800000, times[i] <= 7258118400000]
        if i and monotone:
            cons.append(ids[i] >= ids[i - 1])
        for j in range(len(ids)):
            if j != i:
                cons.append(z3.Implies(empt[i], ids[j] != ids[i]))       # a placeholder row is the only row of its catalog
    return cons


def _job_file(job):
    L_, vfs = _setup()
    Ln, header, maxid = job['L'], job['header'], job['maxid']
    rows, ids, empt, times = _rows(Ln, header, [True, False])

    def run():
        for c in _well_formed(ids, empt, times, maxid):
            core.assume(c)
        return _decode(L_, vfs, rows)
    paths, trunc = core.explore(run, max_paths=20000)

    def cexf(mod, P):
        return {'header': header, 'rows': [(core.int_from_model(mod, ids[i]), core.bool_from_model(mod, empt[i]), i,
                                            core.int_from_model(mod, times[i]), [True, False][i % 2]) for i in range(Ln)]}

    def vio(P):
        out = P.value
        n = len(out)
        bad = [ids[-1] + 1 != n]
        for k, (cid, evs) in enumerate(out):
            ct = cid.t if isinstance(cid, SInt) else z3.IntVal(int(cid))
            bad.append(ct != k)
            present = []
            for ev in evs:
                rid = ev[0]
                rid = rid.decode() if isinstance(rid, bytes) else str(rid)
                i = int(rid[2:])
                present.append(i)
                tag = float(i + 1)
                fields_ok = z3.And(core.R(ev[1]).v == z3.ToReal(times[i]), core.R(ev[2]).v == core._rv(tag + 0.5),
                                   core.R(ev[3]).v == core._rv(tag + 0.25), core.R(ev[4]).v == core._rv(tag + 0.125),
                                   core.R(ev[5]).v == core._rv(tag + 0.75))
                bad.append(z3.Not(fields_ok))
            if present != sorted(present) or len(set(present)) != len(present):
                bad.append(z3.BoolVal(True))
            for i in range(Ln):
                member = z3.And(z3.Not(empt[i]), ids[i] == k)
                bad.append(member != z3.BoolVal(i in present))
        return z3.Or(bad)
    obs = C.path_obligations(paths, vio, cexf, replay, 'decoded catalogs == encoded catalogs', 60)
    from .C16 import _aggregate
    obs = _aggregate(obs, paths, trunc)
    okp = [P for P in paths if P.kind == 'ok']
    if okp:
        def chk(mod):
            bad, d = replay(cexf(mod, okp[-1]))
            return (not bad), d
        obs.append(C.reach_obligation(okp[-1], chk))
    return {'obligations': [o.as_dict() for o in obs],
            'samples': [{'rows': Ln, 'header': header, 'catalog ids': 'symbolic 0..%d' % maxid, 'placeholder flags': 'symbolic', 'paths': len(paths)}]}


def _job_decr(job):
    """a file whose catalog ids decrease somewhere is rejected with ValueError"""
    L_, vfs = _setup()
    Ln, maxid = job['L'], job['maxid']
    rows, ids, empt, times = _rows(Ln, False, [True])

    def run():
        for c in _well_formed(ids, empt, times, maxid, monotone=False):
            core.assume(c)
        core.assume(z3.Or([ids[i] < ids[i - 1] for i in range(1, Ln)]))
        for e in empt:
            core.assume(z3.Not(e))
        try:
            _decode(L_, vfs, rows)
        except ValueError:
            return 'rejected'
        return 'accepted'
    paths, trunc = core.explore(run, max_paths=5000)

    def cexf(mod, P):
        return {'header': False, 'rows': [(core.int_from_model(mod, ids[i]), False, i, core.int_from_model(mod, times[i]), True) for i in range(Ln)]}
    obs = C.path_obligations(paths, lambda P: z3.BoolVal(P.value != 'rejected'), cexf, replay, 'decreasing catalog ids are rejected', 60)
    from .C16 import _aggregate
    obs = _aggregate(obs, paths, trunc)
    return {'obligations': [o.as_dict() for o in obs], 'samples': [{'rows': Ln, 'ids': 'symbolic with a decrease', 'paths': len(paths)}]}


def _job_dispatch(job):
    """load_catalog_forecast wires the csv decoder into a CatalogForecast (concrete twin against the real package)"""
    L_, vfs = _setup()
    csep = L_.load('csep')
    rows = [['1.0', '2.0', '5.0', '2010-01-01T00:00:00.5', '3.0', '0', 'a'], ['1.5', '2.5', '5.5', '2010-01-02T00:00:00', '3.5', '2', 'b']]
    vfs.put_rows('/virtual/f_2010-01-01T00-00-00-000000.csv', rows)

    def run():
        f = csep.load_catalog_forecast('/virtual/f_2010-01-01T00-00-00-000000.csv')
        return [(c.catalog_id, c.event_count) for c in f], f.name
    paths, _ = core.explore(run)
    P = paths[0]
    ok = P.kind == 'ok' and P.value[0] == [(0, 1), (1, 0), (2, 1)] and P.value[1] == 'f'
    o = Obligation('load_catalog_forecast yields catalogs 0..2 with 1, 0, 1 events and the name from the file', 'unsat' if ok else 'sat', kind='twin')
    o.detail = repr(P.value if P.kind == 'ok' else P.exc)
    return {'obligations': [o.as_dict()], 'samples': [{'rows': rows}]}
