"""C09 -- empirical quantiles treat ties and out-of-range observations exactly (DESIGN 4/C09)."""
from fractions import Fraction

import numpy as np
import z3

from symx import core, symnp
from symx.core import XR, SInt
from symx.harness import Obligation
from . import common as C

ID = 'C09'
KNOWN_KEYS = {}
META = {
    'functions': ['csep/utils/stats.py ecdf', 'csep/utils/stats.py greater_equal_ecdf', 'csep/utils/stats.py less_equal_ecdf',
                  'csep/utils/stats.py get_quantiles', 'csep/utils/stats.py binned_ecdf'],
    'theory': 'LRA/LIA: sample and query value are unconstrained reals (or integers), so every tie pattern and every '
              'position of the query is covered at once; numpy.sort is a comparator network of ite terms, searchsorted the '
              'bisection decision tree, ey[idx] an ite-chain',
    'bounds': {'quick': 'sample size n = 1..7 (real and integer data), one query value; monotonicity with two query values n<=5',
               'thorough': 'n = 1..10; binned_ecdf over 3 query points'},
    'outside': ['n beyond the bound', 'NaN samples', 'float rounding of the sample values themselves (comparisons only)'],
    'stubs': [],
    'assumptions': ['sample finite'],
}


def _exact(k, n):
    """the double the code stores for k/n"""
    return float(np.arange(1, n + 1)[k - 1] / float(n)) if k > 0 else 0.0


def replay(cex):
    C.real_csep()
    from csep.utils import stats
    x = cex['x']
    n = len(x)
    msgs = []
    vals = cex['v'] if isinstance(cex['v'], list) else [cex['v']]
    res = []
    for v in vals:
        ge = stats.greater_equal_ecdf(x, v)
        le = stats.less_equal_ecdf(x, v)
        q = stats.get_quantiles(x, v)
        kge = sum(1 for xi in x if xi >= v)
        kle = sum(1 for xi in x if xi <= v)
        res.append((ge, le))
        if float(ge) != _exact(kge, n):
            msgs.append('greater_equal_ecdf(%r, %r) = %r, #{x>=v}/n = %d/%d' % (x, v, ge, kge, n))
        if float(le) != _exact(kle, n):
            msgs.append('less_equal_ecdf(%r, %r) = %r, #{x<=v}/n = %d/%d' % (x, v, le, kle, n))
        if (float(q[0]), float(q[1])) != (float(ge), float(le)):
            msgs.append('get_quantiles differs from the two ecdf functions')
    if len(vals) == 2 and vals[0] <= vals[1]:
        if res[0][0] < res[1][0] or res[0][1] > res[1][1]:
            msgs.append('not monotone in v: %r' % (res,))
    if cex.get('binned'):
        b = stats.binned_ecdf(x, np.array(vals))
        for v, c in zip(vals, b[1]):
            kle = sum(1 for xi in x if xi <= v)
            if float(c) != _exact(kle, n):
                msgs.append('binned_ecdf at %r = %r, expected %d/%d' % (v, c, kle, n))
    return bool(msgs), '; '.join(msgs) or 'real results equal the counting definition: %r' % (res,)


def jobs(tier, seed):
    out = []
    nmax = 7 if tier == 'quick' else 10
    for n in range(1, nmax + 1):
        for kind in ('real', 'int'):
            out.append({'name': 'ecdf n=%d %s' % (n, kind), 'kind': 'one', 'n': n, 'data': kind, 'tier': tier, 'cost': 2 ** n})
    for n in range(1, (5 if tier == 'quick' else 7) + 1):
        out.append({'name': 'monotone n=%d' % n, 'kind': 'mono', 'n': n, 'data': 'real', 'tier': tier, 'cost': 2 ** n})
    for n in ((2, 3) if tier == 'quick' else (2, 3, 4, 5)):
        out.append({'name': 'binned_ecdf n=%d' % n, 'kind': 'binned', 'n': n, 'data': 'real', 'tier': tier, 'cost': 3 ** n})
    for j in out:
        j['wall'] = 500 if tier == 'quick' else 3000
    return out


def _mk(n, data, nv=1):
    if data == 'real':
        xs = [z3.Real('x%d' % i) for i in range(n)]
        vs = [z3.Real('v%d' % i) for i in range(nv)]
        return xs, vs, [XR(t) for t in xs], [XR(t) for t in vs]
    xs = [z3.Int('x%d' % i) for i in range(n)]
    vs = [z3.Int('v%d' % i) for i in range(nv)]
    return xs, vs, [SInt(t) for t in xs], [SInt(t) for t in vs]


def _rt(r):
    """result of the ecdf functions as a z3 Real term"""
    if isinstance(r, XR):
        return r.v
    return core._rv(float(r))


def _count_eq(result_t, conds, n):
    """result == double(k/n) where k = number of true conds"""
    cnt = z3.Sum([z3.If(c, 1, 0) for c in conds])
    return z3.And([z3.Implies(cnt == k, result_t == core._rv(_exact(k, n))) for k in range(n + 1)])


def _val(mod, t):
    v = mod.eval(t, model_completion=True)
    if z3.is_int_value(v):
        return v.as_long()
    fr = Fraction(v.numerator_as_long(), v.denominator_as_long())
    return float(fr) if Fraction(float(fr)) == fr else fr


def _cex(mod, xs, vs, binned=False):
    """model -> concrete sample; rationals that are not doubles are scaled to integers (comparisons are
    scale-invariant), so the replay exercises exactly the solver's tie pattern"""
    vals = [_val(mod, t) for t in xs + vs]
    if any(isinstance(a, Fraction) for a in vals):
        den = 1
        for a in vals:
            den = np.lcm(den, Fraction(a).denominator)
        vals = [float(Fraction(a) * int(den)) for a in vals]
    x = vals[:len(xs)]
    v = vals[len(xs):]
    return {'x': x, 'v': v if len(v) > 1 else v[0], 'binned': binned}


def run_job(job):
    snap = C.stats_snapshot()
    core.MODE['float'] = 'xr'
    L = C.twin()
    stats = L.load('csep.utils.stats')
    n = job['n']
    kind = job['kind']
    TO = 120 if job['tier'] == 'quick' else 900
    obs = []
    if kind == 'one':
        xs, vs, X, V = _mk(n, job['data'])

        def run():
            arr = symnp.asarray(X)
            ge = stats.greater_equal_ecdf(arr, V[0])
            le = stats.less_equal_ecdf(arr, V[0])
            q = stats.get_quantiles(arr, V[0])
            return ge, le, q
        paths, _ = core.explore(run)

        def vio(P):
            ge, le, q = P.value
            v = vs[0]
            ok = z3.And(_count_eq(_rt(ge), [x >= v for x in xs], n), _count_eq(_rt(le), [x <= v for x in xs], n),
                        _rt(q[0]) == _rt(ge), _rt(q[1]) == _rt(le))
            return z3.Not(ok)
        obs += C.path_obligations(paths, vio, lambda m, P: _cex(m, xs, vs), replay, 'ecdf == counting definition', TO)
        if paths and paths[0].kind == 'ok':
            def chk(mod):
                c = _cex(mod, xs, vs)
                ok, detail = replay(c)
                return (not ok), detail
            obs.append(C.reach_obligation(paths[0], chk))
    elif kind == 'mono':
        xs, vs, X, V = _mk(n, job['data'], 2)

        def run():
            core.assume(vs[0] <= vs[1])
            arr = symnp.asarray(X)
            return (stats.greater_equal_ecdf(arr, V[0]), stats.less_equal_ecdf(arr, V[0]),
                    stats.greater_equal_ecdf(arr, V[1]), stats.less_equal_ecdf(arr, V[1]))
        paths, _ = core.explore(run)

        def vio(P):
            g0, l0, g1, l1 = P.value
            return z3.Or(_rt(g0) < _rt(g1), _rt(l0) > _rt(l1))
        obs += C.path_obligations(paths, vio, lambda m, P: _cex(m, xs, vs), replay, 'monotone in v', TO)
    else:
        xs, vs, X, V = _mk(n, job['data'], 3)

        def run():
            arr = symnp.asarray(X)
            return stats.binned_ecdf(arr, symnp.asarray(V))
        paths, _ = core.explore(run)

        def vio(P):
            vals, cdf = P.value
            bad = []
            for j in range(3):
                bad.append(z3.Not(_count_eq(_rt(cdf.a[j]), [x <= vs[j] for x in xs], n)))
            return z3.Or(bad)
        obs += C.path_obligations(paths, vio, lambda m, P: _cex(m, xs, vs, True), replay, 'binned_ecdf == counting definition', TO)
    res = {'obligations': [o.as_dict() for o in obs],
           'samples': [{'n': n, 'data': job['data'], 'sample': 'symbolic, unconstrained (all tie patterns)', 'paths': len(paths)}]}
    res.update(C.stats_delta(snap))
    return res
