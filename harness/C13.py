"""C13 -- a catalog forecast is a stable, re-iterable collection (DESIGN 4/C13)."""
import itertools

import numpy as np
import z3

from symx import core, symnp
from symx.core import XR, SInt
from symx.harness import Obligation
from . import common as C

ID = 'C13'
KNOWN_KEYS = {}
META = {
    'functions': ['csep/core/forecasts.py CatalogForecast.__init__/__iter__/__next__/_load_catalogs',
                  'csep/core/forecasts.py CatalogForecast.get_event_counts', 'csep/core/forecasts.py CatalogForecast.get_expected_rates',
                  'csep/core/forecasts.py CatalogForecast.spatial_counts/magnitude_counts',
                  'csep/core/catalog_evaluations.py number_test (as a consumer)'],
    'theory': 'integers / reals for per-catalog event counts and gridded counts (symbolic), Booleans and small integers for the '
              'configuration and the operation history; the history is a sequence of symbolic operation selectors enumerated by '
              'the path explorer',
    'bounds': {'quick': '12 configurations (in-memory / loader+store / loader without store) x apply_filters x filter_spatial; '
                        '0..2 catalogs; every history of length <= 3 over {pass, get_event_counts, get_expected_rates, '
                        'spatial_counts, magnitude_counts, catalog N-test}',
               'thorough': 'histories of length <= 4, 0..3 catalogs'},
    'outside': ['longer histories', 'interrupted passes (break inside a for loop)', 'apply_mct (time-dependent completeness)'],
    'stubs': ['catalogs: stubs with symbolic raw / filtered event counts and gridded counts; filter and filter_spatial are '
              'idempotent (C04) and are counted per catalog object'],
    'assumptions': ['filters are idempotent (C04)'],
}

OPS = ['pass', 'counts', 'rates', 'spatial', 'magnitude', 'ntest']


class Cat:
    """synthetic catalog stub: content switches from raw to filtered when a filter is applied (idempotent)"""

    def __init__(self, i, gen):
        self.i = i
        self.gen = gen
        self.nfilter = 0
        self.nspatial = 0
        self.region = None
        self.name = 'cat%d' % i

    def _state(self):
        return (self.nfilter > 0, self.nspatial > 0)

    @property
    def event_count(self):
        f, s = self._state()
        return SInt(z3.Int('n%d_%d%d' % (self.i, f, s)), dom=None)

    def get_number_of_events(self):
        return self.event_count

    def _copy(self):
        c = Cat(self.i, self.gen)
        c.nfilter, c.nspatial, c.region, c.name = self.nfilter, self.nspatial, self.region, self.name
        return c

    def filter(self, statements=None, in_place=True):
        # like the real catalog: in_place=False leaves this object untouched and returns a filtered copy
        tgt = self if in_place else self._copy()
        tgt.nfilter += 1
        return tgt

    def filter_spatial(self, region=None, update_stats=False, in_place=True):
        tgt = self if in_place else self._copy()
        tgt.nspatial += 1
        return tgt

    def apply_mct(self, *a, **k):
        return self

    def spatial_magnitude_counts(self, mag_bins=None, tol=None):
        f, s = self._state()
        a = np.empty((2, 2), dtype=object)
        for c in range(2):
            for k in range(2):
                a[c, k] = XR(z3.Real('g%d_%d%d_%d%d' % (self.i, f, s, c, k)))
        return symnp.SArr(a, core.DT64)

    def spatial_counts(self):
        return symnp.sum(self.spatial_magnitude_counts(), axis=1)

    def magnitude_counts(self, mag_bins=None, tol=None, retbins=False):
        return symnp.sum(self.spatial_magnitude_counts(), axis=0)

    def __str__(self):
        return 'Cat(%d)' % self.i


def replay(cex):
    """replay on the real package with real catalogs written to / loaded from a real file"""
    import os
    import tempfile
    csep = C.real_csep()
    from csep.core.forecasts import CatalogForecast
    from csep.core.catalogs import CSEPCatalog
    from csep.core import regions, catalog_evaluations as ce
    from csep import models
    cfg, hist, ncat = cex['config'], cex['history'], cex['ncat']
    lat = C.lattice('row', 2, 1, 0.5, (10.0, 40.0))
    reg = C.build_region(regions, models, lat)
    reg.magnitudes = np.array([4.0, 5.0])
    reg.num_mag_bins = 2

    def events(j):
        # catalog j: j+1 events inside the region with M5.5 plus one small event that the magnitude filter removes
        evs = [('c%de%d' % (j, k), 86400000 * k, 40.25, 10.25 + 0.5 * (k % 2), 5.0, 5.5) for k in range(j + 1)]
        evs.append(('c%dsmall' % j, 0, 40.25, 10.25, 5.0, 4.2))
        return evs
    d = tempfile.mkdtemp(prefix='c13-')
    try:
        filters = ['magnitude >= 5.0']
        if cfg['source'] == 'memory':
            cats = [CSEPCatalog(data=events(j), catalog_id=j, region=reg) for j in range(ncat)]
            f = CatalogForecast(catalogs=cats, n_cat=ncat, region=reg, filters=filters, apply_filters=cfg['apply_filters'],
                                filter_spatial=cfg['filter_spatial'], name='f')
        elif ncat == 0:
            # an empty forecast cannot be written as a file (the final catalog id must be present): empty loader
            f = CatalogForecast(filename='x', loader=lambda **k: iter([]), region=reg, filters=filters,
                                apply_filters=cfg['apply_filters'], filter_spatial=cfg['filter_spatial'],
                                store=(cfg['source'] == 'store'), name='f')
        else:
            path = os.path.join(d, 'f.csv')
            with open(path, 'w'):
                pass
            for j in range(ncat):
                CSEPCatalog(data=events(j), catalog_id=j).write_ascii(path, write_header=(j == 0), write_empty=False, append=(j > 0))
            f = csep.load_catalog_forecast(path, region=reg, filters=filters, apply_filters=cfg['apply_filters'],
                                           filter_spatial=cfg['filter_spatial'], store=(cfg['source'] == 'store'), name='f')
        want_counts = [(j + 1) if cfg['apply_filters'] else (j + 2) for j in range(ncat)]
        msgs = []
        first_rates = None
        obs = CSEPCatalog(data=events(0), region=reg)
        for step, op in enumerate(hist):
            try:
                if op == 'pass':
                    got = [(c.catalog_id, c.event_count) for c in f]
                    if got != list(enumerate(want_counts)):
                        msgs.append('step %d pass yields %r, expected %r' % (step, got, list(enumerate(want_counts))))
                elif op == 'counts':
                    ec = list(f.get_event_counts(verbose=False))
                    if ec != want_counts:
                        msgs.append('step %d get_event_counts %r, expected %r' % (step, ec, want_counts))
                elif op in ('rates', 'spatial', 'magnitude'):
                    if ncat == 0:
                        continue
                    if op == 'rates':
                        r = f.get_expected_rates()
                        if r is None:
                            msgs.append('step %d get_expected_rates returned None' % step)
                            continue
                        data = np.array(r.data)
                    elif op == 'spatial':
                        data = np.array(f.spatial_counts())
                    else:
                        data = np.array(f.magnitude_counts())
                    key = (op, data.tolist())
                    if first_rates is None:
                        first_rates = {}
                    if op in first_rates and first_rates[op] != data.tolist():
                        msgs.append('step %d %s differs from the earlier request' % (step, op))
                    first_rates.setdefault(op, data.tolist())
                    tot = data.sum() * ncat
                    if abs(tot - sum(want_counts)) > 1e-9:
                        msgs.append('step %d %s: total expected count x n_cat = %r, events per pass %r' % (step, op, tot, sum(want_counts)))
                elif op == 'ntest':
                    if ncat == 0:
                        continue
                    res = ce.number_test(f, obs, verbose=False)
                    if list(res.test_distribution) != want_counts:
                        msgs.append('step %d N-test distribution %r, expected %r' % (step, list(res.test_distribution), want_counts))
                if f.n_cat is not None and op in ('pass', 'counts', 'ntest') and f.n_cat != ncat:
                    msgs.append('step %d n_cat = %r, expected %d' % (step, f.n_cat, ncat))
            except Exception as e:
                msgs.append('step %d %s raised %r' % (step, op, e))
                break
        return bool(msgs), ('config %r ncat %d history %r: ' % (cfg, ncat, hist)) + ('; '.join(msgs) or 'stable')
    finally:
        import shutil
        shutil.rmtree(d, ignore_errors=True)


def jobs(tier, seed):
    out = []
    H = 3 if tier == 'quick' else 4
    for source in ('memory', 'store', 'nostore'):
        for af in (False, True):
            for fs in (False, True):
                if fs and not af:
                    continue
                for ncat in ((0, 1, 2) if tier == 'quick' else (0, 1, 2, 3)):
                    if ncat == 0 and source == 'memory':
                        continue        # an in-memory forecast needs at least one catalog (an empty list means "use the loader")
                    out.append({'name': '%s apply_filters=%s filter_spatial=%s ncat=%d' % (source, af, fs, ncat), 'kind': 'hist',
                                'config': {'source': source, 'apply_filters': af, 'filter_spatial': fs}, 'ncat': ncat, 'H': H,
                                'cost': (ncat + 1) * 6 ** H})
    for j in out:
        j['tier'] = tier
        j['wall'] = 900 if tier == 'quick' else 3400
    return out


def run_job(job):
    snap = C.stats_snapshot()
    core.MODE['float'] = 'xr'
    core.OPT['lazy_bounds'] = True
    cfg, ncat, H = job['config'], job['ncat'], job['H']
    L = C.twin()
    forecasts = L.load('csep.core.forecasts')
    regions = L.load('csep.core.regions')
    ce = L.load('csep.core.catalog_evaluations')
    ops = [z3.Int('op%d' % i) for i in range(H)]

    class Region(regions.CartesianGrid2D):
        def __init__(self):
            self.polygons = [None, None]
            self.magnitudes = symnp.asarray(np.array([4.0, 5.0]))
            self.name = 'r'

    def run():
        for o in ops:
            core.assume(z3.And(o >= 0, o < len(OPS)))
        gen = [0]
        made = []

        def loader(format=None, filename=None, region=None, name=None):
            gen[0] += 1
            fresh = [Cat(i, gen[0]) for i in range(ncat)]
            made.append(fresh)
            return iter(fresh)
        reg = Region()
        kw = dict(region=reg, filters=['magnitude >= 5.0'], apply_filters=cfg['apply_filters'], filter_spatial=cfg['filter_spatial'], name='f')
        if cfg['source'] == 'memory':
            f = forecasts.CatalogForecast(catalogs=[Cat(i, 0) for i in range(ncat)], n_cat=ncat, **kw)
        else:
            f = forecasts.CatalogForecast(filename='x', loader=loader, store=(cfg['source'] == 'store'), **kw)
        log = []
        for i in range(H):
            op = OPS[core.concretize(SInt(ops[i]), 0, len(OPS) - 1)]
            if op == 'pass':
                p = [c for c in f]
                log.append(('pass', [(c.i, c._state(), c.event_count) for c in p], f.n_cat))
            elif op == 'counts':
                ec = f.get_event_counts(verbose=False)
                log.append(('counts', [e for e in symnp.asarray(ec).tolist()] if ncat else [], f.n_cat))
            elif op == 'rates':
                if ncat == 0:
                    log.append(('skip',))
                    continue
                r = f.get_expected_rates()
                log.append(('rates', None if r is None else r.data))
            elif op == 'spatial':
                if ncat == 0:
                    log.append(('skip',))
                    continue
                log.append(('spatial', f.spatial_counts()))
            elif op == 'magnitude':
                if ncat == 0:
                    log.append(('skip',))
                    continue
                log.append(('magnitude', f.magnitude_counts()))
            else:
                if ncat == 0:
                    log.append(('skip',))
                    continue
                class Obs:
                    event_count = 3
                    name = 'o'
                    def __str__(self): return 'obs'
                res = ce.number_test(f, Obs(), verbose=False)
                log.append(('ntest', list(res.test_distribution), f.n_cat))
        return log
    paths, trunc = core.explore(run, max_paths=20000)
    want_state = (cfg['apply_filters'], cfg['apply_filters'] and cfg['filter_spatial'])
    # in-memory catalogs that were filtered on an earlier pass stay filtered (same objects): still "filters applied once"
    n_t = [z3.Int('n%d_%d%d' % (i, want_state[0], want_state[1])) for i in range(ncat)]

    def g(i, c, k):
        return z3.Real('g%d_%d%d_%d%d' % (i, want_state[0], want_state[1], c, k))
    mean = [[z3.Sum([g(i, c, k) for i in range(ncat)]) / ncat for k in range(2)] for c in range(2)] if ncat else None

    def cexf(mod, P):
        return {'config': cfg, 'ncat': ncat, 'history': [OPS[core.int_from_model(mod, o)] for o in ops]}

    def vio(P):
        bad = []
        for ent in P.value:
            kind = ent[0]
            if kind == 'pass':
                cats, ncat_attr = ent[1], ent[2]
                if [c[0] for c in cats] != list(range(ncat)) or any(c[1] != want_state for c in cats) or ncat_attr != ncat:
                    bad.append(z3.BoolVal(True))
            elif kind in ('counts', 'ntest'):
                vals = ent[1]
                if len(vals) != ncat or (ent[2] is not None and ent[2] != ncat):
                    bad.append(z3.BoolVal(True))
                else:
                    for v, nt in zip(vals, n_t):
                        bad.append(core.R(v).v != z3.ToReal(nt))
            elif kind == 'rates':
                if ent[1] is None:
                    bad.append(z3.BoolVal(True))
                else:
                    for c in range(2):
                        for k in range(2):
                            bad.append(core.R(ent[1].a[c, k]).v != mean[c][k])
            elif kind == 'spatial':
                for c in range(2):
                    bad.append(core.R(ent[1].a[c]).v != mean[c][0] + mean[c][1])
            elif kind == 'magnitude':
                for k in range(2):
                    bad.append(core.R(ent[1].a[k]).v != mean[0][k] + mean[1][k])
        return z3.Or(bad) if bad else z3.BoolVal(False)
    obs = C.path_obligations(paths, vio, cexf, replay, 'every pass / count / rate request is that of a single filtered pass', 60)
    from .C16 import _aggregate
    obs = _aggregate(obs, paths, trunc)
    okp = [P for P in paths if P.kind == 'ok']
    if okp:
        def chk(mod):
            bad, d = replay(cexf(mod, okp[len(okp) // 2]))
            return (not bad), d
        obs.append(C.reach_obligation(okp[len(okp) // 2], chk))
    res = {'obligations': [o.as_dict() for o in obs],
           'samples': [{'config': cfg, 'catalogs': ncat, 'history length': H, 'operations': OPS, 'paths': len(paths)}]}
    res.update(C.stats_delta(snap))
    return res
