"""C19 -- catalog readers decode every well-formed record of each supported format (DESIGN 4/C19).

The real readers run behind tokeniser stubs (csv.reader rows, the float matrix numpy.loadtxt denotes, the typed record array
numpy.genfromtxt denotes, time strings as placeholders): per record the numeric fields and the civil time fields are
symbolic, and z3 decides that csep.load_catalog(type=...) yields one event per record, in file order, with
longitude / latitude / depth / magnitude in the right slots and the origin time equal to the encoded UTC instant at the
format's resolution. NDK (fixed-column text slicing and regular expressions) is outside the claim.
"""
import os
import tempfile

import numpy as np
import z3

from symx import core, symnp, symdt, symio, loader
from symx.core import XR, SInt
from symx.harness import Obligation
from . import common as C

ID = 'C19'
KNOWN_KEYS = {}
META = {
    'functions': ['csep/utils/readers.py zmap_ascii', 'csep/utils/readers.py jma_csv', 'csep/utils/readers.py ingv_horus',
                  'csep/utils/readers.py csep_ascii', 'csep/__init__.py load_catalog (type dispatch)',
                  'csep/core/catalogs.py CSEPCatalog.load_catalog / catalog setter', 'csep/utils/time_utils.py datetime_to_utc_epoch / strptime_to_utc_epoch'],
    'theory': 'integers for the civil time fields (year, month, day, hour, minute; second with a millisecond fraction), reals for '
              'coordinates / depth / magnitude, exact-real time arithmetic (float rounding of the conversions is C15)',
    'bounds': {'quick': '1..2 records per file (1 for ZMAP and HORUS); ZMAP with 10 and 13 columns, seconds 0..60 with ms fraction; JMA with UTC offset +09:00 and '
                        '+00:00; HORUS with second / minute / hour roll-over (second < 120, minute <= 60, hour <= 24); years 1900..2199, '
                        'all months, leap days by the calendar model',
               'thorough': '2 records for ZMAP and HORUS, 3 for JMA and CSEP CSV'},
    'outside': ['NDK format (fixed-column slicing and regex tokenising are string-level code outside the reach of the solver)',
                'tokenisation by csv / numpy.loadtxt / numpy.genfromtxt / strptime (contracts)', 'float32 rounding of HORUS fields',
                'text columns of ZMAP files (network name): numpy.loadtxt cannot read them'],
    'stubs': ['csv.reader: rows of fields', 'numpy.loadtxt: the float matrix the file denotes', 'numpy.genfromtxt(names, dtype): the typed record array '
              'the file denotes', 'datetime / strptime model with symbolic instants'],
    'assumptions': ['records are well formed: calendar fields form a valid date, the format\'s documented roll-over values only'],
}

US = 10 ** 6


def _civil_us(y, mo, d, h, mi, s_ms):
    """z3 Int term: microseconds since 1970 of the civil instant (symbolic integer fields; seconds as integer milliseconds)"""
    days = symdt.days_from_civil(SInt(y), SInt(mo), SInt(d))
    return ((days * 24 + SInt(h)) * 60 + SInt(mi)) * 60 * US + SInt(s_ms) * 1000


def _valid_date(y, mo, d):
    dim = z3.If(z3.Or(mo == 4, mo == 6, mo == 9, mo == 11), 30,
                z3.If(mo == 2, z3.If(z3.And(y % 4 == 0, z3.Or(y % 100 != 0, y % 400 == 0)), 29, 28), 31))
    return z3.And(y >= 1900, y <= 2199, mo >= 1, mo <= 12, d >= 1, d <= dim)


def _t(x):
    return x.t if isinstance(x, SInt) else x


# ---- replay: real files through the real package -----------------------------------------------------------------------------------

def _write(fmt, recs, path, opts):
    with open(path, 'w') as f:
        if fmt == 'zmap':
            for r in recs:
                cols = [r['lon'], r['lat'], float(r['y']), float(r['mo']), float(r['d']), r['mag'], r['depth'], float(r['h']), float(r['mi']), r['s_ms'] / 1000.0]
                if opts.get('ncol', 10) > 10:
                    cols += [0.5, 0.6, 0.1]
                f.write(' '.join(repr(float(c)) for c in cols) + '\n')
        elif fmt == 'jma':
            f.write('timestamp;longitude;latitude;depth;magnitude\n')
            for r in recs:
                off = opts.get('offset', '+0900')
                f.write('%04d-%02d-%02dT%02d:%02d:%02d.%06d%s;%r;%r;%r;%r\n' % (r['y'], r['mo'], r['d'], r['h'], r['mi'], r['s_ms'] // 1000,
                                                                              (r['s_ms'] % 1000) * 1000, off, r['lon'], r['lat'], r['depth'], r['mag']))
        elif fmt == 'horus':
            f.write('Year\tMo\tDa\tHo\tMi\tSe\tLat\tLon\tDepth\tMw\tsigMw\tGeo-Ita\tGeo-CPTI15\n')
            for r in recs:
                f.write('\t'.join('%.10f' % v for v in (r['y'], r['mo'], r['d'], r['h'], r['mi'], r['s_ms'] / 1000.0, r['lat'], r['lon'], r['depth'], r['mag'], 0.2)) + '\t*\t*\t\n')
        elif fmt == 'csep':
            f.write('lon,lat,mag,time_string,depth,catalog_id,event_id\n')
            for i, r in enumerate(recs):
                ts = '%04d-%02d-%02dT%02d:%02d:%02d' % (r['y'], r['mo'], r['d'], r['h'], r['mi'], r['s_ms'] // 1000)
                if opts.get('frac', True):
                    ts += '.%06d' % ((r['s_ms'] % 1000) * 1000)
                f.write('%r,%r,%r,%s,%r,%d,ev%d\n' % (r['lon'], r['lat'], r['mag'], ts, r['depth'], 3, i))


def _want_ms(fmt, r, opts):
    import datetime as rdt
    base = rdt.datetime(r['y'], r['mo'], r['d']) + rdt.timedelta(hours=r['h'], minutes=r['mi'], milliseconds=r['s_ms'])
    us = (base - rdt.datetime(1970, 1, 1)) // rdt.timedelta(microseconds=1)
    if fmt == 'jma':
        off = opts.get('offset', '+0900')
        us -= (1 if off[0] == '+' else -1) * (int(off[1:3]) * 3600 + int(off[3:5]) * 60) * US
    if fmt == 'horus':
        return (us // US) * 1000          # whole seconds (the repository's own test pins the truncation of the fraction)
    return us // 1000


TYPES = {'zmap': 'zmap', 'jma': 'jma-csv', 'horus': 'ingv_horus', 'csep': 'csep-csv'}


def replay(cex):
    csep = C.real_csep()
    fmt, recs, opts = cex['format'], cex['records'], cex.get('opts', {})
    d = tempfile.mkdtemp(prefix='c19-')
    p = os.path.join(d, 'cat.' + ('csv' if fmt in ('jma', 'csep') else 'txt'))
    try:
        _write(fmt, recs, p, opts)
        try:
            c = csep.load_catalog(p, type=TYPES[fmt])
        except Exception as e:
            return True, '%s: load_catalog raised %r for records %r' % (fmt, e, recs)
        got = [(int(e['origin_time']), float(e['longitude']), float(e['latitude']), float(e['depth']), float(e['magnitude'])) for e in c.catalog]
        msgs = []
        if len(got) != len(recs):
            msgs.append('%d events for %d records' % (len(got), len(recs)))
        for g, r in zip(got, recs):
            want = (_want_ms(fmt, r, opts), r['lon'], r['lat'], r['depth'], r['mag'])
            tol = 1e-5 if fmt == 'horus' else 0.0
            if g[0] != want[0] or any(abs(a - b) > tol * max(1.0, abs(b)) for a, b in zip(g[1:], want[1:])):
                msgs.append('record %r decoded as (ms, lon, lat, depth, mag) = %r, encodes %r' % (r, g, want))
        return bool(msgs), '%s: %s' % (fmt, '; '.join(msgs) or 'every record decoded exactly (%r)' % (got,))
    finally:
        import shutil
        shutil.rmtree(d, ignore_errors=True)


# ---- jobs ------------------------------------------------------------------------------------------------------------------------------

def jobs(tier, seed):
    out = []
    ns = (1, 2) if tier == 'quick' else (1, 2, 3)
    for n in ns:
        for ncol in (10, 13):
            if n == 1 or tier == 'thorough' and n == 2:          # two symbolic ZMAP records take ~13 min of solver time
                out.append({'name': 'zmap %d records %d columns' % (n, ncol), 'fmt': 'zmap', 'n': n, 'opts': {'ncol': ncol}, 'cost': 30 ** n})
        for off in (('+0900', '+0000', '-0330') if n == 1 else ('+0900', '+0000')):
            out.append({'name': 'jma %d records offset %s' % (n, off), 'fmt': 'jma', 'n': n, 'opts': {'offset': off}, 'cost': 2 ** n})
        if n == 1 or tier == 'thorough' and n == 2:
            # split on the roll-over pattern of the first record (second >= 60, minute >= 60, hour >= 24): parallelism only
            for pat in ([(a, b, c) for a in (0, 1) for b in (0, 1) for c in (0, 1)] if n == 1 else [(0, 0, 0), (1, 0, 0), (0, 1, 0), (0, 0, 1)]):
                out.append({'name': 'horus %d records, roll-over pattern %d%d%d' % ((n,) + pat), 'fmt': 'horus', 'n': n, 'opts': {'pattern': list(pat)},
                            'cost': 30 ** n})
        if n == 2 and tier == 'quick':
            # two HORUS records, the first with a seconds roll-over, the second without any (narrowed to keep the path count small)
            out.append({'name': 'horus 2 records, first rolls over', 'fmt': 'horus', 'n': 2, 'opts': {'pattern': [1, 0, 0], 'second_plain': True}, 'cost': 60})
        for frac in (True, False):
            out.append({'name': 'csep-csv %d records fraction=%s' % (n, frac), 'fmt': 'csep', 'n': n, 'opts': {'frac': frac}, 'cost': 2 ** n})
    for j in out:
        j['tier'] = tier
        j['wall'] = 900 if tier == 'quick' else 3000
    return out


def run_job(job):
    snap = C.stats_snapshot()
    core.MODE['float'] = 'xr'
    core.OPT['lazy_bounds'] = True
    res = _job(job)
    res.update(C.stats_delta(snap))
    return res


def _job(job):
    fmt, n, opts = job['fmt'], job['n'], job['opts']
    vfs = symio.VFS()
    L = C.twin(models={'datetime': symdt.module, 'calendar': symdt.calendar, 'csv': symio.CsvModel(), 'os': symio.OsModel(vfs)},
               extra_builtins={'open': vfs.open})
    csep = L.load('csep')
    F = ['y', 'mo', 'd', 'h', 'mi', 's_ms']
    iv = [{k: z3.Int('%s%d' % (k, i)) for k in F} for i in range(n)]
    rv = [{k: z3.Real('%s%d' % (k, i)) for k in ('lon', 'lat', 'depth', 'mag')} for i in range(n)]
    path = '/virtual/cat.' + ('csv' if fmt in ('jma', 'csep') else 'txt')
    roll = fmt == 'horus'

    def assumptions():
        for r in iv:
            core.assume(_valid_date(r['y'], r['mo'], r['d']))
            if roll:
                # HORUS documents over-range clock fields (typos such as 61 s, minute 60, hour 24): one roll-over each
                core.assume(z3.And(r['h'] >= 0, r['h'] <= 24, r['mi'] >= 0, r['mi'] <= 60, r['s_ms'] >= 0, r['s_ms'] < 120000))
                if r is not iv[0] and opts.get('second_plain'):
                    core.assume(z3.And(r['h'] <= 23, r['mi'] <= 59, r['s_ms'] < 60000, r['y'] == 2001, r['mo'] == 3, r['d'] >= 1, r['d'] <= 2))
                if r is iv[0] and opts.get('second_plain'):
                    core.assume(z3.And(r['y'] == 2000, r['mo'] == 2, r['d'] >= 28))
                if r is iv[0] and opts.get('pattern'):
                    a, b, c = opts['pattern']
                    core.assume((r['s_ms'] >= 60000) == bool(a))
                    core.assume((r['mi'] >= 60) == bool(b))
                    core.assume((r['h'] >= 24) == bool(c))
            elif fmt == 'zmap':
                core.assume(z3.And(r['h'] >= 0, r['h'] <= 23, r['mi'] >= 0, r['mi'] <= 59, r['s_ms'] >= 0, r['s_ms'] <= 60000))
            else:
                core.assume(z3.And(r['h'] >= 0, r['h'] <= 23, r['mi'] >= 0, r['mi'] <= 59, r['s_ms'] >= 0, r['s_ms'] < 60000))
            if fmt == 'csep' and not opts.get('frac', True):
                core.assume(r['s_ms'] % 1000 == 0)

    def install():
        if fmt == 'zmap':
            ncol = opts['ncol']
            a = np.empty((n, ncol), dtype=object)
            for i in range(n):
                sec = XR(z3.ToReal(iv[i]['s_ms']) / 1000)
                row = [XR(rv[i]['lon']), XR(rv[i]['lat']), core.R(SInt(iv[i]['y'])), core.R(SInt(iv[i]['mo'])), core.R(SInt(iv[i]['d'])), XR(rv[i]['mag']),
                       XR(rv[i]['depth']), core.R(SInt(iv[i]['h'])), core.R(SInt(iv[i]['mi'])), sec] + [0.5, 0.6, 0.1][:ncol - 10]
                for k, v in enumerate(row):
                    a[i, k] = v
            symnp.VMATRIX[path] = symnp.SArr(a, core.DT64)
            vfs.put_rows(path, [['x']])
        elif fmt == 'horus':
            names = ['year', 'month', 'day', 'hour', 'minute', 'second', 'lat', 'lon', 'depth', 'Mw']
            dts = ['<i4'] * 5 + ['<f4'] * 5
            rec = symnp.rec_empty(n, np.dtype(list(zip(names, dts))))
            if n:
                rec.cols['year'] = symnp.asarray([SInt(r['y']) for r in iv], dtype=np.int32)
                rec.cols['month'] = symnp.asarray([SInt(r['mo']) for r in iv], dtype=np.int32)
                rec.cols['day'] = symnp.asarray([SInt(r['d']) for r in iv], dtype=np.int32)
                rec.cols['hour'] = symnp.asarray([SInt(r['h']) for r in iv], dtype=np.int32)
                rec.cols['minute'] = symnp.asarray([SInt(r['mi']) for r in iv], dtype=np.int32)
                rec.cols['second'] = symnp.asarray([XR(z3.ToReal(r['s_ms']) / 1000) for r in iv])
                for k, nm in (('lat', 'lat'), ('lon', 'lon'), ('depth', 'depth'), ('mag', 'Mw')):
                    rec.cols[nm] = symnp.asarray([XR(r[k]) for r in rv])
            # numpy.genfromtxt contract: one data row -> 0-d record (conformance: the reachability witness goes through the real reader)
            symnp.VMATRIX[path] = symnp.Rec0d(rec) if n == 1 else rec
        else:
            rows = []
            if fmt == 'jma':
                rows.append(['timestamp', 'longitude', 'latitude', 'depth', 'magnitude'])
                for i in range(n):
                    us = _civil_us(*[iv[i][k] for k in F])
                    ts = symdt.placeholder(us, 'T', True, opts['offset'], ident=9300 + i)
                    rows.append([ts] + [loader.sym_literal(XR(rv[i][k])) for k in ('lon', 'lat', 'depth', 'mag')])
            else:
                rows.append(['lon', 'lat', 'mag', 'time_string', 'depth', 'catalog_id', 'event_id'])
                for i in range(n):
                    us = _civil_us(*[iv[i][k] for k in F])
                    ts = symdt.placeholder(us, 'T', opts.get('frac', True), False, ident=9300 + i)
                    rows.append([loader.sym_literal(XR(rv[i]['lon'])), loader.sym_literal(XR(rv[i]['lat'])), loader.sym_literal(XR(rv[i]['mag'])), ts,
                                 loader.sym_literal(XR(rv[i]['depth'])), '3', 'ev%d' % i])
            vfs.put_rows(path, rows)

    def run():
        assumptions()
        install()
        c = csep.load_catalog(path, type=TYPES[fmt])
        data = c.catalog
        return [(data['origin_time'].a[i], data['longitude'].a[i], data['latitude'].a[i], data['depth'].a[i], data['magnitude'].a[i])
                for i in range(len(data))]
    try:
        paths, trunc = core.explore(run, max_paths=6000)
    finally:
        symnp.VMATRIX.pop(path, None)

    def cexf(mod, P):
        recs = []
        for i in range(n):
            r = {k: core.int_from_model(mod, iv[i][k]) for k in F}
            r.update({k: float(core.real_from_model(mod, rv[i][k])) for k in ('lon', 'lat', 'depth', 'mag')})
            recs.append(r)
        return {'format': fmt, 'records': recs, 'opts': opts}

    def want_ms(i):
        us = _t(_civil_us(*[iv[i][k] for k in F]))
        if fmt == 'jma':
            off = opts['offset']
            us = us - (1 if off[0] == '+' else -1) * (int(off[1:3]) * 3600 + int(off[3:5]) * 60) * US
        if fmt == 'horus':
            return (us / US) * 1000         # z3 integer division floors: whole seconds
        return us / 1000

    def vio(P):
        evs = P.value
        ok = [z3.BoolVal(len(evs) == n)]
        for i, e in enumerate(evs[:n]):
            ot = core.R(e[0])
            ok.append(z3.And(ot.fin(), ot.v == z3.ToReal(want_ms(i))))
            for j, k in enumerate(('lon', 'lat', 'depth', 'mag')):
                r = core.R(e[1 + j])
                ok.append(z3.And(r.fin(), r.v == rv[i][k]))
        return z3.Not(z3.And(ok))
    obs = C.path_obligations(paths, vio, cexf, replay, '%s: one event per record, fields and UTC instant as encoded' % fmt, 120)
    from .C16 import _aggregate
    out = _aggregate(obs, paths, trunc)
    okp = [P for P in paths if P.kind == 'ok']
    if okp:
        def chk(mod):
            bad, d = replay(cexf(mod, okp[-1]))
            return (not bad), d
        out.append(C.reach_obligation(okp[-1], chk))
    else:
        out.append(Obligation('reachability witness', 'unsat', kind='reach'))
    return {'obligations': [o.as_dict() for o in out],
            'samples': [{'format': fmt, 'records': n, 'options': opts, 'fields': 'symbolic', 'paths': len(paths)}]}
