"""C14 -- catalog persistence round-trips preserve every event (DESIGN 4/C14).

The real write_ascii / csep.load_catalog (csep_ascii), to_dict / from_dict, write_json / load_json and to_dataframe /
from_dataframe run on catalogs of N <= 2 events whose fields are symbolic (origin time = any integer millisecond of
1900..2200, coordinates / depth / magnitude = arbitrary reals, catalog id = arbitrary integer), through field-level stubs
of the csv / json / pandas layers (identity channel on well-formed fields). z3 decides that the reloaded catalog has the
same events in the same order with identical fields, and the same catalog id / name / region where the format carries them.
Text-level survival (delimiters and quotes in ids, digits of printed doubles) is inside the stubs and OUTSIDE the claim; a
concrete twin writes real files with the real libraries for awkward ids and 17-digit doubles and must agree.
"""
import os
import tempfile

import numpy as np
import z3

from symx import core, symnp, symdt, symio, loader
from symx.core import XR, SInt
from symx.harness import Obligation
from . import common as C

ID = 'C14'
KNOWN_KEYS = {}
META = {
    'functions': ['csep/core/catalogs.py write_ascii', 'csep/utils/readers.py csep_ascii', 'csep/core/catalogs.py CSEPCatalog.load_catalog',
                  'csep/__init__.py load_catalog (dispatch)', 'csep/core/catalogs.py to_dict / from_dict / write_json / load_json / _none_or_datetime',
                  'csep/core/catalogs.py to_dataframe / from_dataframe', 'csep/core/catalogs.py catalog setter / _get_catalog_as_ndarray',
                  'csep/utils/time_utils.py epoch_time_to_utc_datetime / strptime_to_utc_epoch / datetime_to_utc_epoch',
                  'csep/core/regions.py CartesianGrid2D.to_dict / from_dict'],
    'theory': 'integers (epoch milliseconds, catalog id), reals (coordinates, depth, magnitude; time arithmetic exact over the reals), '
              'time strings as placeholders with real syntax and symbolic instant',
    'bounds': {'quick': 'N = 0, 1, 2 events; origin time any integer ms in 1900..2200 (both "whole second" and fractional string forms arise '
                        'by path); catalog id symbolic integer or None; header on/off; with and without region',
               'thorough': 'N = 0..3; append mode (two catalogs written to one file)'},
    'outside': ['byte-level text: csv quoting of ids with delimiters / quotes, digits of printed doubles (identity-channel stubs; exercised '
                'concretely by the twin job with the real libraries)', 'float rounding inside the time conversions (C15 decides it; here exact reals)',
                'the catalog id of an EMPTY catalog in the ascii and dataframe forms (there is no row to carry it)', 'name / region in the ascii and '
                'dataframe forms (the property claims them for dict / JSON only)'],
    'stubs': ['csv.DictWriter / csv.reader: rows of fields; numbers become text tokens that float() / int() read back exactly',
              'json.dump / json.load: type-rule model (symio.JsonModel)', 'pandas.DataFrame: column store (assignment, column selection, '
              'iloc, to_records)', 'datetime model (symdt)'],
    'assumptions': ['origin times within 1900..2200', 'event ids are non-empty byte strings'],
}

T_LO, T_HI = -2208988800000, 7258118400000


# ---- field-level stubs ----------------------------------------------------------------------------------------------------------

class IntText(str):
    """text of an integer: int() reads the symbolic value back"""
    def __new__(cls, sint):
        o = str.__new__(cls, '<int>')
        o.sint = sint
        return o

    def __symint__(self):
        return self.sint


def to_text(v):
    """what csv writes for a field (contract: numbers are printed so that float() / int() read the same value back)"""
    if v is None:
        return ''
    if isinstance(v, (XR, core.SFP, core.EFP)):
        return loader.sym_literal(v)
    if isinstance(v, SInt):
        return IntText(v)
    if isinstance(v, str):
        return v
    if isinstance(v, bytes):
        return str(v)
    if isinstance(v, (float, np.floating)):
        return repr(float(v))
    return str(v)


class Series:
    def __init__(self, values):
        self.values = values

    @property
    def iloc(self):
        s = self

        class I:
            def __getitem__(self_, k):
                if not isinstance(k, int):
                    raise core.NotModelled('iloc with %r' % (k,))
                if k >= len(s.values) or k < -len(s.values):
                    raise IndexError('single positional indexer is out-of-bounds')
                return s.values[k]
        return I()

    def map(self, f):
        return Series([f(v) for v in self.values])

    def __len__(self):
        return len(self.values)


class DataFrame:
    """column store with the pandas surface to_dataframe / from_dataframe touch"""

    def __init__(self, data=None):
        self.columns = {}
        self.n = 0
        self.index = None
        if isinstance(data, symnp.SRec):
            self.n = len(data)
            for name in data.dt.names:
                self.columns[name] = (list(data.cols[name].a.reshape(-1)), data.dt[name])
        elif data is not None:
            raise core.NotModelled('DataFrame from %r' % type(data))

    def __setitem__(self, k, v):
        if isinstance(v, Series):
            vals = list(v.values)
        elif isinstance(v, (symnp.SArr, np.ndarray, list, tuple)):
            vals = list(symnp.asarray(v).a.reshape(-1)) if not isinstance(v, (list, tuple)) else list(v)
            if len(vals) != self.n:
                raise ValueError('Length of values (%d) does not match length of index (%d)' % (len(vals), self.n))
        else:
            vals = [v] * self.n
        self.columns[k] = (vals, None)

    def __getitem__(self, k):
        if isinstance(k, list):
            out = DataFrame()
            out.n = self.n
            for name in k:
                if name not in self.columns:
                    raise KeyError(name)
                out.columns[name] = self.columns[name]
            return out
        if k not in self.columns:
            raise KeyError(k)
        return Series(self.columns[k][0])

    def to_records(self, index=True):
        if index:
            raise core.NotModelled('to_records(index=True)')
        names = list(self.columns)
        dts = []
        for name in names:
            vals, dt = self.columns[name]
            dts.append((name, dt if dt is not None else np.dtype('O')))
        rec = symnp.rec_empty(self.n, np.dtype([(n, d) for n, d in dts]))
        for name in names:
            vals, dt = self.columns[name]
            if dt is not None and dt.kind in 'iufb' and self.n:
                rec.cols[name] = symnp.asarray(list(vals), dtype=dt)
            else:
                for i, v in enumerate(vals):
                    rec.cols[name].a[i] = v
        return rec

    def __len__(self):
        return self.n


class PandasModel:
    DataFrame = DataFrame
    Series = Series

    def __getattr__(self, k):
        raise core.NotModelled('pandas.%s' % k)


def _setup():
    vfs = symio.VFS()
    L = C.twin(models={'datetime': symdt.module, 'calendar': symdt.calendar, 'csv': symio.CsvModel(to_text), 'json': symio.JsonModel(vfs),
                       'os': symio.OsModel(vfs), 'pandas': PandasModel()},
               extra_builtins={'open': vfs.open})
    return L, vfs


# ---- replay on the real package ----------------------------------------------------------------------------------------------------

def _real_region():
    C.real_csep()
    from csep.core import regions
    return regions.CartesianGrid2D.from_origins(np.array([[10.0, 40.0], [10.5, 40.0]]), dh=0.5)


def _events_of(c):
    return [(bytes(e['id']), int(e['origin_time']), float(e['latitude']), float(e['longitude']), float(e['depth']), float(e['magnitude']))
            for e in c.catalog]


def replay(cex):
    csep = C.real_csep()
    from csep.core.catalogs import CSEPCatalog
    fmt = cex['format']
    if fmt == 'twin':
        r = _job_twin({})['obligations'][0]
        return r['status'] == 'sat', r.get('detail') or 'text-level round trips agree'
    evs = [tuple(e) for e in cex['events']]
    data = [(e[0].encode() if isinstance(e[0], str) else e[0], e[1], e[2], e[3], e[4], e[5]) for e in evs]
    reg = _real_region() if cex.get('region') else None
    c = CSEPCatalog(data=[(d[0].decode(),) + d[1:] for d in data], catalog_id=cex.get('catalog_id'), name='nm', region=reg)
    want = _events_of(c)
    d = tempfile.mkdtemp(prefix='c14-')
    msgs = []
    try:
        try:
            if fmt == 'ascii':
                p = os.path.join(d, 'c.csv')
                if cex.get('append'):
                    k = cex['append']
                    c1 = CSEPCatalog(data=[(x[0].decode(),) + x[1:] for x in data[:k]], catalog_id=cex.get('catalog_id'))
                    c2_ = CSEPCatalog(data=[(x[0].decode(),) + x[1:] for x in data[k:]], catalog_id=cex.get('catalog_id'))
                    c1.write_ascii(p, write_header=cex.get('header', True))
                    c2_.write_ascii(p, write_header=False, append=True)
                else:
                    c.write_ascii(p, write_header=cex.get('header', True))
                c2 = csep.load_catalog(p)
            elif fmt == 'dict':
                c2 = CSEPCatalog.from_dict(c.to_dict())
            elif fmt == 'json':
                p = os.path.join(d, 'c.json')
                c.write_json(p)
                c2 = CSEPCatalog.load_json(p)
            else:
                c2 = CSEPCatalog.from_dataframe(c.to_dataframe())
        except Exception as e:
            return True, '%s round trip of %r (catalog id %r) raised %r' % (fmt, evs, cex.get('catalog_id'), e)
        got = _events_of(c2)
        if got != want:
            msgs.append('events %r, written %r' % (got, want))
        cid = cex.get('catalog_id')
        if cid is not None and (fmt not in ('ascii', 'df') or evs):      # an empty file / frame has no row to carry the id
            if c2.catalog_id is None or int(c2.catalog_id) != cid:
                msgs.append('catalog id %r, written %r' % (c2.catalog_id, cid))
        if fmt in ('dict', 'json'):
            if c2.name != 'nm':
                msgs.append('name %r, written %r' % (c2.name, 'nm'))
            if reg is not None and (c2.region is None or c2.region.to_dict() != reg.to_dict()):
                msgs.append('region not preserved')
        return bool(msgs), '%s: %s' % (fmt, '; '.join(msgs) or 'round trip preserves %r' % (evs,))
    finally:
        import shutil
        shutil.rmtree(d, ignore_errors=True)


# ---- jobs -------------------------------------------------------------------------------------------------------------------------

def jobs(tier, seed):
    out = []
    Ns = (0, 1, 2) if tier == 'quick' else (0, 1, 2, 3)
    for N in Ns:
        for header in (True, False):
            for cid in ('int', 'none'):
                out.append({'name': 'ascii N=%d header=%s catalog_id=%s' % (N, header, cid), 'kind': 'rt', 'format': 'ascii', 'N': N,
                            'header': header, 'cid': cid, 'region': False, 'cost': 4 ** N})
        for fmt in ('dict', 'json'):
            for region in (True, False):
                out.append({'name': '%s N=%d region=%s' % (fmt, N, region), 'kind': 'rt', 'format': fmt, 'N': N, 'cid': 'int', 'region': region,
                            'header': True, 'cost': 2 ** N})
        for cid in ('int', 'none'):
            out.append({'name': 'dataframe N=%d catalog_id=%s' % (N, cid), 'kind': 'rt', 'format': 'df', 'N': N, 'cid': cid, 'region': False,
                        'header': True, 'cost': 2 ** N})
    if tier == 'thorough':
        out.append({'name': 'ascii append 1+1', 'kind': 'rt', 'format': 'ascii', 'N': 2, 'header': True, 'cid': 'int', 'region': False, 'append': 1, 'cost': 20})
        out.append({'name': 'ascii append 2+1', 'kind': 'rt', 'format': 'ascii', 'N': 3, 'header': True, 'cid': 'int', 'region': False, 'append': 2, 'cost': 60})
    out.append({'name': 'text-level twin (real csv / json / pandas)', 'kind': 'twin', 'cost': 1})
    for j in out:
        j['tier'] = tier
        j['wall'] = 900 if tier == 'quick' else 3000
    return out


def run_job(job):
    snap = C.stats_snapshot()
    core.MODE['float'] = 'xr'
    core.OPT['lazy_bounds'] = True
    res = globals()['_job_' + job['kind']](job)
    res.update(C.stats_delta(snap))
    return res


def _mk(cats, N, t, f, ids, catalog_id, region, lo=0, hi=None):
    hi = N if hi is None else hi
    n = hi - lo
    rec = symnp.rec_empty(n, cats.CSEPCatalog.dtype)
    for i in range(n):
        rec.cols['id'].a[i] = ids[lo + i]
    if n:
        rec.cols['origin_time'] = symnp.asarray([SInt(x) for x in t[lo:hi]], dtype=np.int64)
        for a in ('latitude', 'longitude', 'depth', 'magnitude'):
            rec.cols[a] = symnp.asarray([XR(x) for x in f[a][lo:hi]])
    return cats.CSEPCatalog(data=rec, catalog_id=catalog_id, name='nm', region=region)


def _job_rt(job):
    L, vfs = _setup()
    csep = L.load('csep')
    cats = L.load('csep.core.catalogs')
    regions = L.load('csep.core.regions')
    fmt, N = job['format'], job['N']
    t = [z3.Int('t%d' % i) for i in range(N)]
    f = {a: [z3.Real('%s%d' % (a[:3], i)) for i in range(N)] for a in ('latitude', 'longitude', 'depth', 'magnitude')}
    ids = [('ev%d' % i).encode() for i in range(N)]
    cid_t = z3.Int('catalog_id')
    reg = regions.CartesianGrid2D.from_origins(symnp.asarray(np.array([[10.0, 40.0], [10.5, 40.0]])), dh=0.5) if job['region'] else None
    reg_dict = reg.to_dict() if reg is not None else None

    def run():
        for x in t:
            core.assume(z3.And(x >= T_LO, x <= T_HI))
        cid = SInt(cid_t) if job['cid'] == 'int' else None
        if fmt == 'ascii':
            if job.get('append'):
                k = job['append']
                _mk(cats, N, t, f, ids, cid, None, 0, k).write_ascii('/virtual/c.csv', write_header=job['header'])
                _mk(cats, N, t, f, ids, cid, None, k, N).write_ascii('/virtual/c.csv', write_header=False, append=True)
            else:
                _mk(cats, N, t, f, ids, cid, reg).write_ascii('/virtual/c.csv', write_header=job['header'])
            c2 = csep.load_catalog('/virtual/c.csv')
        elif fmt == 'dict':
            c2 = cats.CSEPCatalog.from_dict(_mk(cats, N, t, f, ids, cid, reg).to_dict())
        elif fmt == 'json':
            _mk(cats, N, t, f, ids, cid, reg).write_json('/virtual/c.json')
            c2 = cats.CSEPCatalog.load_json('/virtual/c.json')
        else:
            c2 = cats.CSEPCatalog.from_dataframe(_mk(cats, N, t, f, ids, cid, reg).to_dataframe())
        data = c2.catalog
        evs = []
        for i in range(len(data)):
            evs.append((data['id'].a[i], data['origin_time'].a[i], data['latitude'].a[i], data['longitude'].a[i], data['depth'].a[i],
                        data['magnitude'].a[i]))
        return evs, c2.catalog_id, c2.name, (c2.region.to_dict() if c2.region is not None else None)
    paths, trunc = core.explore(run, max_paths=4000)

    def cexf(mod, P):
        fl = lambda x: float(core.real_from_model(mod, x))
        return {'format': fmt, 'header': job.get('header', True), 'region': job['region'], 'append': job.get('append'),
                'catalog_id': core.int_from_model(mod, cid_t) if job['cid'] == 'int' else None,
                'events': [('ev%d' % i, core.int_from_model(mod, t[i]), fl(f['latitude'][i]), fl(f['longitude'][i]), fl(f['depth'][i]),
                            fl(f['magnitude'][i])) for i in range(N)]}

    def ival(x):
        if isinstance(x, SInt):
            return x.t
        r = core.R(x)
        return None if r is None else z3.ToInt(r.v) if not (r.it is not None) else r.it

    def vio(P):
        evs, cid2, name2, reg2 = P.value
        ok = [z3.BoolVal(len(evs) == N)]
        for i, e in enumerate(evs[:N]):
            eid = e[0]
            eid = eid if isinstance(eid, bytes) else (eid.encode() if isinstance(eid, str) else bytes(eid))
            ok.append(z3.BoolVal(eid == ids[i]))
            ot = core.R(e[1])
            ok.append(z3.And(ot.fin(), ot.v == z3.ToReal(t[i])))
            for j, a in enumerate(('latitude', 'longitude', 'depth', 'magnitude')):
                r = core.R(e[2 + j])
                ok.append(z3.And(r.fin(), r.v == f[a][i]))
        if job['cid'] == 'int' and (fmt not in ('ascii', 'df') or N > 0):
            if cid2 is None:
                ok.append(z3.BoolVal(False))
            else:
                r = core.R(cid2)
                ok.append(z3.And(r.fin(), r.v == z3.ToReal(cid_t)) if r is not None else z3.BoolVal(False))
        if fmt in ('dict', 'json'):
            ok.append(z3.BoolVal(name2 == 'nm'))
            ok.append(z3.BoolVal(reg2 == reg_dict))
        return z3.Not(z3.And(ok))
    obs = C.path_obligations(paths, vio, cexf, replay, '%s round trip preserves every event' % fmt, 120)
    from .C16 import _aggregate
    out = _aggregate(obs, paths, trunc)
    okp = [P for P in paths if P.kind == 'ok']
    if okp:
        def chk(mod):
            bad, d = replay(cexf(mod, okp[-1]))
            return (not bad), d
        out.append(C.reach_obligation(okp[-1], chk))
    else:
        out.append(Obligation('reachability witness', 'unsat', kind='reach'))
    return {'obligations': [o.as_dict() for o in out],
            'samples': [{'format': fmt, 'events': N, 'origin time': 'symbolic ms 1900..2200', 'fields': 'symbolic reals', 'paths': len(paths)}]}


def _job_twin(job):
    """text level, concretely, with the real libraries: awkward ids, pre-1970 times, extreme coordinates, 17-digit doubles"""
    evs = [('a,b"c', -271581183988, 40.1, 10.2, 5.0, 5.5), ('ev 2;', 4102444800123, -89.9, 179.99, 700.0, 9.1),
           ("q'uo\"te, x", -2208988800000, 0.1 + 0.2, -179.99999999999997, 1e-7, 2.675), ('7', 7258118399999, 1 / 3, 2 / 3, 123456.789012345678, 5.05)]
    bad = []
    for fmt in ('ascii', 'dict', 'json', 'df'):
        for sel in (evs, evs[:1], []):
            r, d = replay({'format': fmt, 'events': sel, 'catalog_id': 12, 'region': fmt in ('dict', 'json'), 'header': True})
            if r:
                bad.append(d)
    o = Obligation('real csv / json / pandas round trips of awkward ids, pre-1970 times, extreme coordinates and 17-digit doubles',
                   'unsat' if not bad else 'sat', kind='property', cex={'format': 'twin'} if bad else None)
    if bad:
        o.reproduced = True
        o.detail = '; '.join(bad)[:1500]
        o.cex = {'format': 'twin', 'detail': o.detail}
    return {'obligations': [o.as_dict()], 'samples': [{'events': len(evs), 'formats': 4}]}
