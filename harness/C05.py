"""C05 -- Poisson L/CL/S/M statistics equal the Poisson joint log-likelihood (DESIGN 4/C05)."""
import math

import numpy as np
import z3

from symx import core, symnp
from symx.core import XR, SInt
from symx.harness import Obligation
from . import common as C
from . import evalfix as F

ID = 'C05'
KNOWN_KEYS = {}
META = {
    'functions': ['csep/core/poisson_evaluations.py _poisson_likelihood_test', 'csep/core/poisson_evaluations.py _simulate_catalog',
                  'csep/core/poisson_evaluations.py likelihood_test', 'csep/core/poisson_evaluations.py conditional_likelihood_test',
                  'csep/core/poisson_evaluations.py spatial_test', 'csep/core/poisson_evaluations.py magnitude_test',
                  'csep/utils/stats.py poisson_joint_log_likelihood_ndarray',
                  'csep/core/forecasts.py GriddedForecast.data/spatial_counts/magnitude_counts/sum'],
    'theory': 'extended reals (finite / +-inf / nan with IEEE rules) over Real + uninterpreted log, lgamma; division '
              'eliminated (q*den = num); equality "as real-number expressions" (float rounding abstracted away on purpose)',
    'bounds': {'quick': 'forecast 2 cells x 2 magnitude bins, rates >= 0 (zeros allowed, total > 0), observed counts 0..2 per bin '
                        '(total <= 2 for L/CL, <= 3 for S/M), 1 simulation with symbolic uniform draws / symbolic Poisson draw (0..2)',
               'thorough': '2x2, 2x3 and 3x2 bins, total <= 3 (L/CL) / 4 (S/M)'},
    'outside': ['floating-point rounding of sums', 'shapes beyond the bound', 'all-zero forecasts'],
    'stubs': ['numpy.random.rand/poisson: arbitrary values in [0,1) / arbitrary small non-negative integer',
              'numpy.log, scipy.special.loggamma: uninterpreted, axiom lgamma(1) = lgamma(2) = 0',
              'observed catalog: stub returning symbolic gridded counts (gridding is C03)'],
    'assumptions': ['rates >= 0, total rate > 0', 'counts are non-negative integers'],
}

TESTS = {'L': 'likelihood_test', 'CL': 'conditional_likelihood_test', 'S': 'spatial_test', 'M': 'magnitude_test'}


def _spec_ll(rates_v, counts_t, cmax, scale_to=None, n_fore_term=None):
    """z3: (finite value term, is_minus_inf Bool) of  sum_b [ w_b log(lam'_b) - lgamma(w_b + 1) ] - N
    rates_v: list of z3 Real terms (already marginalised); counts_t: list of z3 Int terms"""
    log, lg = core.uf('log'), core.uf('lgamma')
    tot_rate = z3.Sum(rates_v)
    nobs = z3.ToReal(z3.Sum(counts_t))
    side = []
    if scale_to is not None:
        sc = z3.Real('spec_scale')
        side.append(sc * tot_rate == nobs)
        lamp = [l * sc for l in rates_v]
        expected = nobs
    else:
        lamp = list(rates_v)
        expected = tot_rate
    minus_inf = z3.Or([z3.And(w > 0, l == 0) for w, l in zip(counts_t, lamp)])
    val = z3.Sum([F.imul(w, log(l), cmax) - lg(z3.ToReal(w) + 1) for w, l in zip(counts_t, lamp)]) - expected
    return val, minus_inf, side


def _marg(lam, w, test):
    """marginal rates / counts (z3 terms) the given test is defined on"""
    nc, nm = len(lam), len(lam[0])
    if test in ('L', 'CL'):
        return [lam[i][k] for i in range(nc) for k in range(nm)], [w[i][k] for i in range(nc) for k in range(nm)]
    if test == 'S':
        return [z3.Sum(lam[i]) for i in range(nc)], [z3.Sum(w[i]) for i in range(nc)]
    return [z3.Sum([lam[i][k] for i in range(nc)]) for k in range(nm)], [z3.Sum([w[i][k] for i in range(nc)]) for k in range(nm)]


# ---- replay ------------------------------------------------------------------------------------------------

def _real_setup(rates, counts):
    C.real_csep()
    from csep.core import regions, forecasts
    from csep.core.catalogs import CSEPCatalog
    from csep import models
    nc, nm = len(rates), len(rates[0])
    lat = C.lattice('row', nc, 1, 0.5, (10.0, 40.0)) if nc > 1 else C.lattice('one', 1, 1, 0.5, (10.0, 40.0))
    reg = C.build_region(regions, models, lat)
    mags = np.array(F.MAGS[:nm])
    fore = forecasts.GriddedForecast(data=np.array(rates, dtype=float), region=reg, magnitudes=mags, name='fore')
    ev = []
    for i in range(nc):
        for k in range(nm):
            for j in range(counts[i][k]):
                ev.append(('e%d' % len(ev), 0, lat['origins'][i][1] + 0.25, lat['origins'][i][0] + 0.25, 10.0, mags[k] + 0.5))
    cat = CSEPCatalog(data=ev, region=reg, name='obs')
    return fore, cat


def _logpmf_sum(rates, counts):
    import scipy.stats
    tot = 0.0
    for l, w in zip(rates, counts):
        if l == 0:
            if w > 0:
                return -math.inf
            continue
        tot += scipy.stats.poisson.logpmf(w, l)
    return tot


def replay(cex):
    from csep.core import poisson_evaluations as pe
    test = cex['test']
    fore, cat = _real_setup(cex['rates'], cex['counts'])
    fn = getattr(pe, TESTS[test])
    try:
        with np.errstate(all='ignore'):
            res = fn(fore, cat, num_simulations=1, seed=1)
    except Exception as e:
        return True, '%s raised %r for rates %r counts %r' % (TESTS[test], e, cex['rates'], cex['counts'])
    R = np.array(cex['rates'], dtype=float)
    W = np.array(cex['counts'])
    if test in ('L', 'CL'):
        r, w = R.ravel(), W.ravel()
    elif test == 'S':
        r, w = R.sum(axis=1), W.sum(axis=1)
    else:
        r, w = R.sum(axis=0), W.sum(axis=0)
    if test in ('S', 'M'):
        r = r * (w.sum() / r.sum())
    want = _logpmf_sum(r, w)
    got = float(res.observed_statistic)
    if math.isinf(want) or math.isinf(got) or math.isnan(got):
        bad = not (want == got)
    else:
        bad = abs(got - want) > 1e-9 * max(1.0, abs(want))
    return bad, '%s: observed_statistic %r, sum of log Poisson pmf %r (rates %r, counts %r)' % (TESTS[test], got, want, cex['rates'], cex['counts'])


def jobs(tier, seed):
    shapes = [(2, 2)] if tier == 'quick' else [(2, 2), (2, 3), (3, 2)]
    out = []
    for (nc, nm) in shapes:
        for test in TESTS:
            # the exploration is split on the activity pattern of the first two observed bins (parallelism only)
            splits = [(a, b) for a in (0, 1) for b in (0, 1)] if test in ('L', 'CL') else [None]
            for sp in splits:
                out.append({'name': '%s-test %dx%d%s' % (test, nc, nm, '' if sp is None else ' split=%s' % (sp,)), 'test': test,
                            'nc': nc, 'nm': nm, 'tier': tier, 'split': sp,
                            'total_max': (2 if test in ('L', 'CL') else 3) if tier == 'quick' else (3 if test in ('L', 'CL') else 4), 'cost': nc * nm * (3 if test in ('L', 'CL') else 1),
                            'wall': 900 if tier == 'quick' else 3400})
    return out


def run_job(job):
    snap = C.stats_snapshot()
    core.MODE['float'] = 'xr'
    core.OPT['lazy_bounds'] = True
    test, nc, nm = job['test'], job['nc'], job['nm']
    cmax = 2
    L = C.twin()
    pe = L.load('csep.core.poisson_evaluations')
    lam, lcons = F.sym_rates(nc, nm)
    w, wcons = F.sym_counts(nc, nm, cmax=cmax, total_max=job['total_max'])
    sims = []
    orig_sim = pe._simulate_catalog

    def recording_sim(*a, **k):
        r = orig_sim(*a, **k)
        core.CTX.notes.setdefault('sims', []).append(r.copy())
        return r
    pe._simulate_catalog = recording_sim

    def run():
        for c in lcons + wcons + F.axioms():
            core.assume(c)
        if job.get('split') is not None:
            flatw = [x for row in w for x in row]
            for x, on in zip(flatw, job['split']):
                core.assume(x > 0 if on else x == 0)
        core.CTX.notes.setdefault('random', {'seed_calls': [], 'draws': []})['poisson_max'] = 2
        fore = F.mk_forecast(L, lam)
        obs = F.ObsStub(L, w, fore.region, cmax)
        res = getattr(pe, TESTS[test])(fore, obs, num_simulations=1, seed=None)
        return res.observed_statistic, res.test_distribution, res.quantile
    paths, trunc = core.explore(run, max_paths=4000)
    rates_v, counts_t = _marg(lam, w, test)
    spec_v, spec_inf, side0 = _spec_ll(rates_v, counts_t, cmax * max(nc, nm), scale_to=(test in ('S', 'M')) or None)
    TO = 120 if job['tier'] == 'quick' else 600

    def cexf(mod, P):
        return {'test': test, 'rates': F.model_rates(mod, lam), 'counts': F.model_counts(mod, w)}

    def vio(P):
        obs_ll, dist, q = P.value
        o = core.R(obs_ll)
        side = list(side0)
        if test in ('S', 'M'):
            # hint (valid since the total rate is positive): any quotient N_obs / N_fore formed by the code is the
            # specification's scale factor
            tot_rate = z3.Sum(rates_v)
            nobs = z3.ToReal(z3.Sum(counts_t))
            for (qq, num, den) in P.notes.get('_divs', []):
                side.append(z3.Implies(z3.And(den == tot_rate, num == nobs), qq == z3.Real('spec_scale')))
        good = z3.And(z3.Not(o.nan), z3.If(spec_inf, o.inf == -1, z3.And(o.inf == 0, o.v == spec_v)))
        out = [('observed statistic == sum of log pmf (-inf iff event in zero-rate bin)', z3.And(*side, z3.Not(good)))]
        # every simulated entry is the same function of the simulated counts
        simc = P.notes.get('sims', [])
        if len(simc) == len(dist) == 1:
            sc = simc[0]
            flat = [core.R(e) for e in sc.a.reshape(-1)]
            # simulated counts as Int terms
            its = [f.it if f.it is not None else z3.ToInt(f.v) for f in flat]
            n_sim = z3.Sum(its)
            log, lg = core.uf('log'), core.uf('lgamma')
            if test in ('S', 'M'):
                sc2 = z3.Real('spec_scale')          # same scale: observed number of events over forecast total
                lamp = [l * sc2 for l in rates_v]
                expected = z3.ToReal(z3.Sum(counts_t))
            else:
                lamp = rates_v
                expected = z3.Sum(rates_v)
            cm = job['total_max'] if test != 'L' else 2
            sim_inf = z3.Or([z3.And(c > 0, l == 0) for c, l in zip(its, lamp)])
            sim_val = z3.Sum([F.imul(c, log(l), cm) - lg(z3.ToReal(c) + 1) for c, l in zip(its, lamp)]) - expected
            d = core.R(dist[0])
            good2 = z3.And(z3.Not(d.nan), z3.If(sim_inf, d.inf == -1, z3.And(d.inf == 0, d.v == sim_val)))
            out.append(('simulated entry == same function of the simulated catalog', z3.And(*side, z3.Not(good2))))
        return out
    obs = C.path_obligations(paths, vio, cexf, replay, '%s-test' % test, TO, candidate_only=True)
    # one aggregate line per clause keeps the evidence readable
    agg = {}
    for o in obs:
        key = o.name.split(', path')[0]
        a = agg.setdefault(key, {'n': 0, 'unsat': 0, 'sat': [], 'unknown': 0, 't': 0.0})
        a['n'] += 1
        a['t'] += o.time_s
        if o.status == 'unsat':
            a['unsat'] += 1
        elif o.status == 'sat':
            a['sat'].append(o)
        else:
            a['unknown'] += 1
    out = []
    for key, a in agg.items():
        for o in a['sat'][:3]:
            out.append(o)
        st = 'unsat' if a['unsat'] == a['n'] else ('unknown' if not a['sat'] or a['unknown'] else 'unknown')
        if a['unsat'] == a['n'] or a['unknown']:
            out.append(Obligation('%s on all %d paths' % (key, a['n']), 'unsat' if a['unsat'] == a['n'] else 'unknown', a['t'],
                                  note='%d paths%s' % (len(paths), ', truncated' if trunc else '')))
    if trunc:
        out.append(Obligation('path exploration complete', 'unknown', note='truncated at %d paths' % len(paths)))
    okp = [P for P in paths if P.kind == 'ok']
    if okp:
        def chk(mod):
            c = cexf(mod, okp[0])
            bad, detail = replay(c)
            return (not bad), detail
        out.append(C.reach_obligation(okp[0], chk))
    res = {'obligations': [o.as_dict() for o in out],
           'samples': [{'test': test, 'shape': [nc, nm], 'rates': 'symbolic >= 0', 'counts': 'symbolic 0..%d' % cmax, 'paths': len(paths)}]}
    res.update(C.stats_delta(snap))
    return res
