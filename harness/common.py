"""Shared pieces of the harnesses: configuration families, exact oracles, solver helpers."""
import math
import os
import struct
import sys
import time
from fractions import Fraction

import numpy as np
import z3

from symx import core, symnp, loader
from symx.core import SFP, SBV, SInt, XR, SBool, fpconst, F64, F32
from symx.harness import Obligation

EPS64 = Fraction(1, 2 ** 52)
EPS32 = Fraction(1, 2 ** 23)
BAND = 2 ** 12        # the property's "relative distance of order 1e-12": 2^12 * eps64 = 9.1e-13

REPO = os.environ.get('VERIF_REPO', '/repo')


def real_csep():
    """the unmodified package from the tree under test (for replays and concrete twins)"""
    if REPO not in sys.path:
        sys.path.insert(0, REPO)
    import warnings
    with warnings.catch_warnings():
        warnings.simplefilter('ignore')
        import csep
    assert os.path.abspath(csep.__file__).startswith(os.path.abspath(REPO)), csep.__file__
    return csep


def twin(models=None, **kw):
    return loader.Loader(models=models, **kw)


def solve(fs, timeout_s=60, pc=(), logic=None):
    """one query: returns (status, model, seconds)"""
    s = z3.Solver() if logic is None else z3.SolverFor(logic)
    seed = int(os.environ.get('VERIF_SEED', '0') or 0)
    if seed:
        s.set('random_seed', seed % (2 ** 31))
    s.add(*pc)
    s.add(*fs)
    t = time.time()
    r = core.timed_check(s, int(timeout_s * 1000))
    dt = time.time() - t
    core.STATS['queries'] += 1
    core.STATS['solver_s'] += dt
    return r, (s.model() if r == 'sat' else None), dt


def stats_snapshot():
    return dict(core.STATS)


def stats_delta(a):
    b = core.STATS
    return {'paths': b['paths'] - a['paths'], 'decisions': b['decisions'] - a['decisions'],
            'queries': b['queries'] - a['queries'], 'solver_s': b['solver_s'] - a['solver_s']}


def fin(t):
    return z3.And(z3.Not(z3.fpIsNaN(t)), z3.Not(z3.fpIsInf(t)))


def frac(x):
    return Fraction(float(x))


def tau(k, e_k, a0, eps=EPS64):
    """the property's round-off band below edge k (exact rational)"""
    return BAND * eps * (k + 2) * max(abs(frac(e_k)), abs(frac(a0)))


def fp_below(v_t, bound):
    """z3: v < bound where bound is an exact Fraction (compare against the largest double <= bound etc.)"""
    # v < bound  <=>  v < ceil_double(bound) if bound not representable else v < bound
    lo = float(bound)
    if Fraction(lo) < bound:
        lo = math.nextafter(lo, math.inf)      # smallest double >= bound
    elif Fraction(lo) > bound:
        pass
    return z3.fpLT(v_t, fpconst(lo, v_t.sort()))


def fp_geq(v_t, bound):
    lo = float(bound)
    if Fraction(lo) < bound:
        lo = math.nextafter(lo, math.inf)
    return z3.fpGEQ(v_t, fpconst(lo, v_t.sort()))


# ---- grid family (C02, C03, C11) ------------------------------------------------------------------

def grid_family(tier, seed=0):
    rc = real_csep()
    from csep.utils.calc import cleaner_range
    from csep.utils.constants import CSEP_MW_BINS
    g = []
    g.append(('csep_mw', [float(x) for x in CSEP_MW_BINS]))
    g.append(('5.95:0.1:8.95', [float(x) for x in cleaner_range(5.95, 8.95, 0.1)]))
    g.append(('3.0:0.5:8.0', [float(x) for x in cleaner_range(3.0, 8.0, 0.5)]))
    g.append(('-1:0.25:1', [float(x) for x in cleaner_range(-1.0, 1.0, 0.25)]))
    g.append(('-7.3:0.2:-5.1', [float(x) for x in cleaner_range(-7.3, -5.1, 0.2)]))
    g.append(('one-edge', [5.0]))
    g.append(('two-edge', [4.95, 5.05]))
    if tier == 'thorough':
        g.append(('4.95:0.1:8.95', [float(x) for x in cleaner_range(4.95, 8.95, 0.1)]))
        g.append(('-0.05:0.15:2.95', [float(x) for x in cleaner_range(-0.05, 2.95, 0.15)]))
        g.append(('0.0:0.1:3.0', [float(x) for x in cleaner_range(0.0, 3.0, 0.1)]))
        rng = np.random.RandomState(1234 + seed)
        for _ in range(4):
            m = int(rng.randint(1, 3))
            A = int(rng.randint(-500, 500))
            B = int(rng.randint(1, 30))
            n = int(rng.randint(3, 40))
            s, h = A / 10 ** m, B / 10 ** m
            g.append(('seeded %s:%s:n%d' % (s, h, n), [float(x) for x in cleaner_range(s, s + n * h, h)]))
    return g


# ---- lattice family (C01, C11, C18, C20) ----------------------------------------------------------

def lattice(name, nx, ny, dh, anchor, holes=(), masked=(), order='row'):
    """cell origins of an nx x ny lattice (decimal grid anchored at `anchor`), minus holes; returns dict"""
    m = 0
    while round(dh * 10 ** m) != dh * 10 ** m or round(anchor[0] * 10 ** m) != anchor[0] * 10 ** m \
            or round(anchor[1] * 10 ** m) != anchor[1] * 10 ** m:
        m += 1
    sc = 10 ** m
    D = round(dh * sc)
    AX, AY = round(anchor[0] * sc), round(anchor[1] * sc)
    cells = []
    for j in range(ny):
        for i in range(nx):
            if (i, j) in holes:
                continue
            cells.append((i, j))
    if order == 'col':
        cells.sort(key=lambda c: (c[0], c[1]))
    elif order == 'shuffle':
        rng = np.random.RandomState(7)
        rng.shuffle(cells)
    origins = [((AX + i * D) / sc, (AY + j * D) / sc) for (i, j) in cells]
    flags = [0 if c in masked else 1 for c in cells]
    return {'name': name, 'nx': nx, 'ny': ny, 'dh': dh, 'anchor': list(anchor), 'cells': cells, 'origins': origins,
            'flags': flags if masked else None, 'scale': sc, 'D': D, 'AX': AX, 'AY': AY}


def lattice_family(tier, seed=0):
    fam = []
    shapes = [
        ('2x2', 2, 2, (), ()),
        ('3x3-hole', 3, 3, ((1, 1),), ()),
        ('3x4-holes-mask', 3, 4, ((0, 3), (2, 0)), ((1, 2),)),
        ('1x4', 1, 4, (), ()),
        ('4x1', 4, 1, (), ()),
        ('1x1', 1, 1, (), ()),
        ('12x1', 12, 1, (), ()),       # long axes: round-off of the spacing accumulates with the bin index
        ('1x12', 1, 12, (), ()),
    ]
    if tier == 'quick':
        combos = [(0.1, (-125.4, 33.3)), (0.5, (165.5, -47.5))]
        orders = ['row']
    else:
        combos = [(dh, an) for dh in (0.1, 0.05, 0.25, 0.5, 1.0)
                  for an in ((0.0, 0.0), (-125.4, 33.3), (165.7, -47.9), (-0.25, -0.25), (179.0, 84.0))]
        orders = ['row', 'col', 'shuffle']
    for (nm, nx, ny, holes, masked) in shapes:
        for dh, an in combos:
            for od in orders:
                if od != 'row' and nx * ny < 4:
                    continue
                fam.append(lattice('%s dh=%s at=%s %s' % (nm, dh, an, od), nx, ny, dh, an, holes, masked, od))
    return fam


def build_region(csep_regions, csep_models, lat, np_mod=np):
    """CartesianGrid2D from a lattice description, through the given (real or twin) modules"""
    origins = np_mod.asarray([list(o) for o in lat['origins']])
    bboxes = csep_regions.compute_vertices(origins, lat['dh'])
    polys = [csep_models.Polygon(b) for b in bboxes]
    mask = None if lat['flags'] is None else np_mod.asarray(lat['flags'])
    return csep_regions.CartesianGrid2D(polys, lat['dh'], mask=mask)


def f64(x):
    return float(x)


def bits_to_f64(n):
    return struct.unpack('<d', struct.pack('<Q', n))[0]


# ---- generic per-path obligation helper -------------------------------------------------------------------

def path_obligations(paths, vio_of, cex_of, replay, name, timeout_s=120, allowed_exc=(), candidate_only=False,
                     classify=None, exc_cex=True):
    """For every explored path: if the program raised something not in allowed_exc -> obligation 'no exception'
    (sat when the path is feasible); otherwise query pc and vio_of(path) (a z3 formula, a list of (name, formula),
    or None for 'nothing to check')."""
    obs = []
    for i, P in enumerate(paths):
        if P.kind == 'exc' and not isinstance(P.exc, tuple(allowed_exc)):
            st, mod, t = solve([], timeout_s, P.pc)
            cex = cex_of(mod, P) if st == 'sat' else None
            o = Obligation('%s: no exception on path %d (%s: %s)' % (name, i, P.exc_name(), str(P.exc)[:120]), st, t, cex,
                           candidate_only=candidate_only)
            obs.append(_replayed(o, replay, classify))
            continue
        v = vio_of(P)
        if v is None:
            continue
        items = v if isinstance(v, list) else [(name, v)]
        for nm, f in items:
            st, mod, t = solve([f], timeout_s, P.pc)
            cex = cex_of(mod, P) if st == 'sat' else None
            o = Obligation('%s, path %d' % (nm, i), st, t, cex, candidate_only=candidate_only)
            obs.append(_replayed(o, replay, classify))
    return obs


def _replayed(o, replay, classify=None):
    if o.status == 'sat' and o.cex is not None:
        try:
            o.reproduced, o.detail = replay(o.cex)
        except Exception as e:
            import traceback
            o.reproduced, o.detail = False, 'replay crashed: %r %s' % (e, traceback.format_exc()[-600:])
        if o.reproduced and classify is not None:
            o.known_key = classify(o.cex)
    return o


def reach_obligation(P, check_real, timeout_s=60):
    """reachability twin: a model of the path; check_real(model) -> (ok, detail) compares with the real code"""
    st, mod, t = solve([], timeout_s, P.pc)
    o = Obligation('reachability witness', st, t, kind='reach')
    if st == 'sat':
        try:
            o.reproduced, o.detail = check_real(mod)
        except Exception as e:
            o.reproduced, o.detail = False, 'witness replay crashed: %r' % (e,)
    return o


def real_to_float(fr):
    return float(fr)
