"""C20 -- evaluation outcomes do not depend on storage order (DESIGN 4/C20).

Relational checks: the same real code is executed twice inside one exploration, on an input and on a re-ordered copy of
it, and z3 decides that the two outcomes cannot differ. Re-orderings are *symbolic permutations* (integer variables
constrained distinct; the permuted copy selects its elements through ite-chains), except the cell order of a region, which
is a construction-time choice and is enumerated (row-major vs shuffled lattice).
  grid  : real CSEPCatalog gridding functions and GriddedForecast.target_event_rates on N symbolic events vs the permuted events
  tw    : public paired T / W / binary T tests on the event list vs the permuted list
  sim   : public simulation-based and number tests, same seed, event list vs permuted list: every output identical
  cats  : catalog-based tests on a CatalogForecast vs the same forecast with its synthetic catalogs permuted
  cells : lattice built in two cell orders with consistently permuted rates: lookups, gridded counts, statistics agree
"""
import itertools
import math

import numpy as np
import z3

from symx import core, symnp
from symx.core import XR, SInt
from symx.harness import Obligation
from . import common as C
from . import evalfix as F

ID = 'C20'
KNOWN_KEYS = {}
META = {
    'functions': ['csep/core/catalogs.py spatial_counts / spatial_magnitude_counts / magnitude_counts / spatial_event_probability / get_mag_idx',
                  'csep/core/forecasts.py GriddedForecast.target_event_rates / get_rates / get_index_of / get_magnitude_index',
                  'csep/core/poisson_evaluations.py number_test / likelihood_test / conditional_likelihood_test / spatial_test / magnitude_test / paired_t_test / w_test',
                  'csep/core/binomial_evaluations.py negative_binomial_number_test / binary_spatial_test / binary_conditional_likelihood_test / binary_paired_t_test',
                  'csep/core/brier_evaluations.py brier_score_test',
                  'csep/core/catalog_evaluations.py number_test / spatial_test / pseudolikelihood_test / magnitude_test',
                  'csep/core/forecasts.py CatalogForecast.__next__ / get_expected_rates',
                  'csep/core/regions.py CartesianGrid2D.__init__/_build_bitmask_vec (two cell orders, concrete) / get_index_of'],
    'theory': 'extended reals + integers + uninterpreted log/sqrt/cdf functions; relational (two executions per query); symbolic '
              'permutations as distinct integer variables',
    'bounds': {'quick': 'events: N = 2 (grid, sim), N = 3 (tw); synthetic catalogs: J = 2; cells: 2x2 lattice row-major vs shuffled, 2 events; '
                        '2 cells x 2 magnitude bins (1 bin for the simulation-based tests), 1 simulation',
               'thorough': 'N = 3 events; J = 3 synthetic catalogs; cells: 2 events on 2x2, 1 event on the 3x3-with-hole lattice'},
    'outside': ['floating-point non-associativity (the property says "to rounding"): equality is decided over the reals',
                'N > 3 events, J > 3 catalogs', 'simulation-based distributions under a re-ordering of cells or synthetic catalogs '
                '(the property claims them only for re-ordered observed events)'],
    'stubs': ['abstract Cartesian region for the event-order jobs (C01 contract)', 'cells job: bin1d_vec on symbolic values replaced by the exact half-open contract decided in C01/C02', 'numpy.random: draws are a function of (seed, draw index)',
              'scipy distribution functions uninterpreted'],
    'assumptions': ['events lie in the region and inside the magnitude grid where the evaluation requires it'],
}


# ---- shared pieces -----------------------------------------------------------------------------------------------------------------

def perm_vars(n, name='p'):
    p = [z3.Int('%s%d' % (name, i)) for i in range(n)]
    cons = [z3.And(x >= 0, x < n) for x in p]
    if n > 1:
        cons.append(z3.Distinct(*p))
    return p, cons


def select(p_j, items):
    """items[p_j] as an ite-chain over z3 terms"""
    t = items[-1]
    for l in range(len(items) - 2, -1, -1):
        t = z3.If(p_j == l, items[l], t)
    return t


def xeq(a, b):
    """z3: two extended reals denote the same value"""
    a, b = core.R(a), core.R(b)
    if a is None or b is None:
        return z3.BoolVal(a is None and b is None)
    return z3.Or(z3.And(a.nan, b.nan), z3.And(z3.Not(a.nan), z3.Not(b.nan), a.inf == b.inf, z3.Or(a.inf != 0, a.v == b.v)))


def flat(x):
    if isinstance(x, symnp.SArr):
        return list(x.a.reshape(-1))
    if isinstance(x, np.ndarray):
        return list(x.reshape(-1))
    if isinstance(x, (list, tuple)):
        out = []
        for e in x:
            out += flat(e)
        return out
    return [x]


def same_value(a, b):
    """two outcomes (value or exception instance) are the same: exceptions by type, arrays / tuples element-wise"""
    if isinstance(a, Exception) or isinstance(b, Exception):
        return z3.BoolVal(isinstance(a, Exception) and isinstance(b, Exception) and type(a) is type(b))
    if a is None or b is None:
        return z3.BoolVal(a is None and b is None)
    if isinstance(a, str) or isinstance(b, str):
        return z3.BoolVal(a == b)
    fa, fb = flat(a), flat(b)
    if len(fa) != len(fb):
        return z3.BoolVal(False)
    parts = []
    for x, y in zip(fa, fb):
        if isinstance(x, str) or isinstance(y, str) or x is None or y is None:
            parts.append(z3.BoolVal(x == y if not (x is None or y is None) else (x is None and y is None)))
        else:
            parts.append(xeq(x, y))
    return z3.And(parts + [z3.BoolVal(True)])


def multiset_eq(a, b):
    a, b = flat(a), flat(b)
    if len(a) != len(b):
        return z3.BoolVal(False)
    ra, rb = [core.R(x) for x in a], [core.R(x) for x in b]
    cs = []
    for x in ra:
        cs.append(z3.Sum([z3.If(xeq(x, y), 1, 0) for y in ra]) == z3.Sum([z3.If(xeq(x, y), 1, 0) for y in rb]))
    return z3.And(cs + [z3.BoolVal(True)])


def guarded(f):
    try:
        return f()
    except (ValueError, IndexError, ZeroDivisionError, FloatingPointError) as e:
        return e


def _agg(obs, paths, trunc, okp_chk=None):
    from .C16 import _aggregate
    out = _aggregate(obs, paths, trunc)
    return out


# ---- replay ------------------------------------------------------------------------------------------------------------------------

MAGS = F.MAGS


def _real_region(nc, nm):
    C.real_csep()
    from csep.core import regions
    from csep import models
    lat = C.lattice('row', nc, 1, 0.5, (10.0, 40.0)) if nc > 1 else C.lattice('one', 1, 1, 0.5, (10.0, 40.0))
    reg = C.build_region(regions, models, lat)
    reg.magnitudes = np.array(MAGS[:nm])
    reg.num_mag_bins = nm
    return reg, lat


def _real_catalog(events, reg, lat, nm, name='obs'):
    """events: [(cell, mbin)] (cell -1 = outside the region, mbin -1 = below the grid)"""
    from csep.core.catalogs import CSEPCatalog
    data = []
    for n, (c, k) in enumerate(events):
        lon = lat['origins'][c][0] + 0.25 if c >= 0 else lat['origins'][0][0] - 5.0
        la = lat['origins'][max(c, 0)][1] + 0.25
        m = MAGS[k] + 0.5 if k >= 0 else MAGS[0] - 1.0
        data.append(('e%d' % n, 1000 * n, la, lon, 10.0, m))
    return CSEPCatalog(data=data, region=reg, name=name)


def _cmp_results(r1, r2, exact=True, dist='equal'):
    """compare two EvaluationResult objects of the real package"""
    msgs = []

    def close(a, b):
        a, b = np.asarray(a, dtype=float), np.asarray(b, dtype=float)
        if a.shape != b.shape:
            return False
        if exact:
            return bool(np.array_equal(a, b, equal_nan=True))
        return bool(np.allclose(a, b, rtol=1e-9, atol=1e-12, equal_nan=True))
    if (r1 is None) != (r2 is None):
        return ['one order yields a result, the other none']
    if r1 is None:
        return []
    if r1.status != r2.status:
        msgs.append('status %r vs %r' % (r1.status, r2.status))
    for f in ('observed_statistic', 'quantile'):
        a, b = getattr(r1, f), getattr(r2, f)
        try:
            if not close(a, b):
                msgs.append('%s %r vs %r' % (f, a, b))
        except (TypeError, ValueError):
            if a != b:
                msgs.append('%s %r vs %r' % (f, a, b))
    try:
        d1 = np.asarray([x for x in r1.test_distribution if not isinstance(x, str)], dtype=float)
        d2 = np.asarray([x for x in r2.test_distribution if not isinstance(x, str)], dtype=float)
        if dist == 'equal' and not close(d1, d2):
            msgs.append('test distribution %r vs %r' % (d1.tolist(), d2.tolist()))
        if dist == 'multiset' and not close(np.sort(d1), np.sort(d2)):
            msgs.append('test distribution (as multisets) %r vs %r' % (sorted(d1.tolist()), sorted(d2.tolist())))
    except (TypeError, ValueError):
        pass
    return msgs


def replay(cex):
    import io
    import contextlib
    csep = C.real_csep()
    from csep.core import forecasts, poisson_evaluations as pe, binomial_evaluations as be, brier_evaluations as br, catalog_evaluations as ce
    kind = cex['kind']
    with contextlib.redirect_stdout(io.StringIO()), np.errstate(all='ignore'):
        if kind in ('grid', 'tw', 'sim'):
            nc, nm = cex['nc'], cex['nm']
            reg, lat = _real_region(nc, nm)
            ev = cex['events']
            ev2 = [ev[p] for p in cex['perm']]
            c1, c2 = _real_catalog(ev, reg, lat, nm), _real_catalog(ev2, reg, lat, nm)
            mags = np.array(MAGS[:nm])
            msgs = []
            if kind == 'grid':
                for name in ('spatial_magnitude_counts', 'magnitude_counts', 'spatial_counts', 'spatial_event_probability'):
                    def run(c):
                        try:
                            return np.asarray(getattr(c, name)(), dtype=float)
                        except Exception as e:
                            return type(e).__name__
                    a, b = run(c1), run(c2)
                    if (isinstance(a, str) or isinstance(b, str)) and not (isinstance(a, str) and isinstance(b, str) and a == b) or \
                            (not isinstance(a, str) and not np.array_equal(a, b)):
                        msgs.append('%s: %r for the events, %r for the re-ordered events' % (name, a if isinstance(a, str) else a.tolist(),
                                                                                            b if isinstance(b, str) else b.tolist()))
                fo = forecasts.GriddedForecast(data=np.array(cex['rates'], dtype=float), region=reg, magnitudes=mags, name='f')

                def rates(c):
                    try:
                        return np.asarray(fo.target_event_rates(c)[0], dtype=float)
                    except Exception as e:
                        return type(e).__name__
                a, b = rates(c1), rates(c2)
                if isinstance(a, str) or isinstance(b, str):
                    if not (isinstance(a, str) and isinstance(b, str) and a == b):
                        msgs.append('target_event_rates: %r vs %r' % (a, b))
                elif not np.array_equal(a[np.array(cex['perm'], dtype=int)] if len(a) else a, b):
                    msgs.append('target_event_rates: %r for the events, %r for the re-ordered events' % (a.tolist(), b.tolist()))
                return bool(msgs), 'events %r perm %r: %s' % (ev, cex['perm'], '; '.join(msgs) or 'gridding is order-independent')
            fa = forecasts.GriddedForecast(data=np.array(cex['rates'], dtype=float), region=reg, magnitudes=mags, name='A')
            fn = cex['fn']
            if kind == 'tw':
                fb = forecasts.GriddedForecast(data=np.array(cex['rates_b'], dtype=float), region=reg, magnitudes=mags, name='B')
                mod_ = be if fn.startswith('binary') else pe
                try:
                    r1, r2 = getattr(mod_, fn)(fa, fb, c1), getattr(mod_, fn)(fa, fb, c2)
                except Exception as e:
                    return False, 'replay raised %r' % (e,)
                msgs = _cmp_results(r1, r2, exact=False)
            else:
                mod_ = {'p': pe, 'b': be, 'r': br}[cex['mod']]
                kw = dict(num_simulations=3, seed=cex.get('seed', 1)) if fn not in ('number_test', 'negative_binomial_number_test') else {}
                if fn == 'negative_binomial_number_test':
                    kw['variance'] = cex.get('variance', 2.0)
                try:
                    r1, r2 = getattr(mod_, fn)(fa, c1, **kw), getattr(mod_, fn)(fa, c2, **kw)
                except Exception as e:
                    return False, 'replay raised %r' % (e,)
                msgs = _cmp_results(r1, r2, exact=True)
            return bool(msgs), '%s, events %r perm %r: %s' % (fn, ev, cex['perm'], '; '.join(msgs) or 'identical results')
        if kind == 'cats':
            from . import C10
            cats, obs, perm = cex['cats'], cex['obs'], cex['perm']
            f1, o1, _ = C10._real_setup(cats, obs)
            f2, o2, _ = C10._real_setup([cats[p] for p in perm], obs)
            fn = getattr(ce, cex['fn'])
            try:
                r1, r2 = fn(f1, o1, verbose=False), fn(f2, o2, verbose=False)
            except Exception as e:
                return False, 'replay raised %r' % (e,)
            msgs = _cmp_results(r1, r2, exact=False, dist='multiset')
            return bool(msgs), '%s, synthetic catalogs %r perm %r observed %r: %s' % (cex['fn'], cats, perm, obs, '; '.join(msgs) or 'same outcome')
        if kind == 'cells':
            return _replay_cells(cex)
    raise ValueError(kind)


# ---- jobs ---------------------------------------------------------------------------------------------------------------------------

SIM_FNS = [('p', 'number_test'), ('p', 'likelihood_test'), ('p', 'conditional_likelihood_test'), ('p', 'spatial_test'), ('p', 'magnitude_test'),
           ('b', 'negative_binomial_number_test'), ('b', 'binary_spatial_test'), ('b', 'binary_conditional_likelihood_test'), ('r', 'brier_score_test')]


def jobs(tier, seed):
    out = []
    q = tier == 'quick'
    out.append({'name': 'grid N=%d' % (2 if q else 3), 'kind': 'grid', 'N': 2 if q else 3, 'cost': 50})
    if not q:
        out.append({'name': 'grid N=2', 'kind': 'grid', 'N': 2, 'cost': 10})
    for fn in ('paired_t_test', 'w_test', 'binary_paired_t_test'):
        out.append({'name': 'tw %s N=3' % fn, 'kind': 'tw', 'fn': fn, 'N': 3, 'cost': 20})
    for (m, fn) in SIM_FNS:
        out.append({'name': 'sim %s N=%d' % (fn, 2 if q else 3), 'kind': 'sim', 'mod': m, 'fn': fn, 'N': 2 if q else 3, 'cost': 40})
    for fn in ('number_test', 'pseudolikelihood_test', 'spatial_test', 'magnitude_test'):
        J = 2 if q else 3
        if fn == 'number_test':
            out.append({'name': 'cats %s J=%d symbolic permutation' % (fn, 3), 'kind': 'cats', 'fn': fn, 'J': 3, 'cost': 10})
            continue
        for perm in itertools.permutations(range(J)):
            if list(perm) != sorted(perm):
                out.append({'name': 'cats %s J=%d perm=%s' % (fn, J, ''.join(map(str, perm))), 'kind': 'cats', 'fn': fn, 'J': J, 'perm': list(perm),
                            'cost': 60, 'cmax': 1 if (q and fn in ('spatial_test', 'pseudolikelihood_test')) else 2})
    out.append({'name': 'cells 2x2 N=1', 'kind': 'cells', 'shape': '2x2', 'N': 1, 'cost': 80})
    out.append({'name': 'cells 2x2 N=1 via from_origins', 'kind': 'cells', 'shape': '2x2', 'N': 1, 'via': 'from_origins', 'cost': 80})
    if not q:
        out.append({'name': 'cells 2x2 N=2', 'kind': 'cells', 'shape': '2x2', 'N': 2, 'cost': 300})
        out.append({'name': 'cells 3x3-hole N=1', 'kind': 'cells', 'shape': '3x3-hole', 'N': 1, 'cost': 200})
    for j in out:
        j['tier'] = tier
        j['wall'] = 1200 if q else 3400
    return out


def run_job(job):
    snap = C.stats_snapshot()
    core.MODE['float'] = 'xr'
    core.OPT['lazy_bounds'] = True
    core.OPT['sum_dom'] = True
    res = globals()['_job_' + job['kind']](job)
    res.update(C.stats_delta(snap))
    return res


def _abs_region_cls(regions, cellof):
    class AbsRegion(regions.CartesianGrid2D):
        """C01's contract: every point has one cell index in 0..n-1 or is outside (-1)"""
        def __init__(self, n, magnitudes):
            self.polygons = [None] * n
            self.magnitudes = magnitudes
            self.name = 'abstract'

        def _cells(self, lons, lats):
            lo, la = symnp.asarray(lons), symnp.asarray(lats)
            out = []
            for i in range(len(lo)):
                c = cellof(core.R(lo[i]).v, core.R(la[i]).v)
                core.assume(z3.And(c >= -1, c < len(self.polygons)))
                out.append(SInt(c, dom=(-1, len(self.polygons) - 1)))
            return out

        def get_index_of(self, lons, lats):
            cs = self._cells(lons, lats)
            for c in cs:
                if c == -1:
                    raise ValueError('at least one lon and lat pair contain values that are outside of the valid region.')
            return symnp.asarray(cs, dtype=np.int64) if cs else symnp.zeros(0, dtype=np.int64)

        def get_masked(self, lons, lats):
            cs = self._cells(lons, lats)
            return symnp.asarray([c == -1 for c in cs]) if cs else symnp.zeros(0, dtype=bool)
    return AbsRegion


def _job_grid(job):
    """the real gridding functions on N symbolic events (coordinates, magnitudes) and on the permuted events"""
    from . import C03
    L = C.twin()
    cats = L.load('csep.core.catalogs')
    regions = L.load('csep.core.regions')
    forecasts = L.load('csep.core.forecasts')
    N = job['N']
    nc, nm = 2, 2
    edges = MAGS[:nm]
    lons = [z3.Real('lon%d' % i) for i in range(N)]
    lats = [z3.Real('lat%d' % i) for i in range(N)]
    mags = [z3.Real('m%d' % i) for i in range(N)]
    p, pcons = perm_vars(N)
    lon2 = [select(p[j], lons) for j in range(N)]
    lat2 = [select(p[j], lats) for j in range(N)]
    mag2 = [select(p[j], mags) for j in range(N)]
    cellof = z3.Function('cellof', z3.RealSort(), z3.RealSort(), z3.IntSort())
    AbsRegion = _abs_region_cls(regions, cellof)
    lam, lcons = F.sym_rates(nc, nm, allow_zero=True)

    def results(lo, la, ma, reg, fo):
        out = {}
        mk = lambda: C03._mk_catalog(cats, N, lo, la, ma, reg)
        out['smc'] = guarded(lambda: mk().spatial_magnitude_counts())
        out['mc'] = guarded(lambda: mk().magnitude_counts())
        out['sc'] = guarded(lambda: mk().spatial_counts())
        out['pr'] = guarded(lambda: mk().spatial_event_probability())
        out['idx'] = guarded(lambda: mk().get_mag_idx())
        out['rates'] = guarded(lambda: fo.target_event_rates(mk())[0])
        return out

    def run():
        for c in pcons + lcons:
            core.assume(c)
        for m in mags:
            core.assume(C03._band_free(m, edges))
            core.assume(z3.And(m > 0, m < 10))
        reg = AbsRegion(nc, symnp.asarray(np.array(edges)))
        fo = forecasts.GriddedForecast(data=F.rate_array(lam), region=reg, magnitudes=symnp.asarray(np.array(edges)), name='f')
        return results(lons, lats, mags, reg, fo), results(lon2, lat2, mag2, reg, fo)
    paths, trunc = core.explore(run, max_paths=20000)
    cells_t = [cellof(lo, la) for lo, la in zip(lons, lats)]
    bins_t = [C03._mag_bin(m, edges) for m in mags]

    def cexf(mod, P):
        return {'kind': 'grid', 'nc': nc, 'nm': nm, 'events': [(core.int_from_model(mod, c), core.int_from_model(mod, b)) for c, b in zip(cells_t, bins_t)],
                'perm': [core.int_from_model(mod, x) for x in p], 'rates': F.model_rates(mod, lam)}

    def vio(P):
        r1, r2 = P.value
        qs = []
        for k in ('smc', 'mc', 'sc', 'pr'):
            qs.append(('%s identical for the re-ordered events' % k, z3.Not(same_value(r1[k], r2[k]))))
        for k in ('idx', 'rates'):
            a, b = r1[k], r2[k]
            if isinstance(a, Exception) or isinstance(b, Exception):
                qs.append(('%s: same outcome' % k, z3.Not(same_value(a, b))))
            else:
                fa, fb = flat(a), flat(b)
                ok = [z3.Or([z3.And(p[j] == l, xeq(fb[j], fa[l])) for l in range(N)]) for j in range(N)] if len(fa) == len(fb) == N else [z3.BoolVal(False)]
                qs.append(('%s follow the events' % k, z3.Not(z3.And(ok + [z3.BoolVal(True)]))))
        return qs
    obs = C.path_obligations(paths, vio, cexf, replay, 'gridding', 120)
    out = _agg(obs, paths, trunc)
    okp = [P for P in paths if P.kind == 'ok' and not isinstance(P.value[0]['smc'], Exception)]
    if okp:
        out.append(C.reach_obligation(okp[0], lambda mod: (lambda r: ((not r[0]), r[1]))(replay(cexf(mod, okp[0])))))
    return {'obligations': [o.as_dict() for o in out], 'samples': [{'events': N, 'permutation': 'symbolic', 'cells': nc, 'paths': len(paths)}]}


def _event_obs_cls(cats, nc, nm):
    class EvObs(cats.AbstractBaseCatalog):
        """observed catalog as an ordered list of events, each with a symbolic cell and magnitude-bin index"""
        def __init__(self, cells, bins, region):
            self.name = 'obs'
            self.region = region
            self._cells, self._bins = cells, bins

        def get_longitudes(self): return symnp.asarray([SInt(c, dom=(0, nc - 1)) for c in self._cells])
        def get_latitudes(self): return symnp.asarray([SInt(c, dom=(0, nc - 1)) for c in self._cells])
        def get_magnitudes(self): return symnp.asarray([SInt(k, dom=(0, nm - 1)) for k in self._bins])
        def get_number_of_events(self): return len(self._cells)

        @property
        def event_count(self):
            return len(self._cells)

        def spatial_magnitude_counts(self, mag_bins=None, tol=None):
            out = np.empty((nc, nm), dtype=object)
            for i in range(nc):
                for k in range(nm):
                    t = z3.Sum([z3.If(z3.And(c == i, b == k), 1, 0) for c, b in zip(self._cells, self._bins)] + [z3.IntVal(0)])
                    out[i, k] = core.R(SInt(t, dom=(0, len(self._cells))))
            return symnp.SArr(out, core.DT64)

        def spatial_counts(self):
            return symnp.sum(self.spatial_magnitude_counts(), axis=1)

        def magnitude_counts(self, mag_bins=None, tol=None, retbins=False):
            return symnp.sum(self.spatial_magnitude_counts(), axis=0)

        def __str__(self):
            return 'EvObs'
    return EvObs


def _abs_forecast(L, lam, name, nc, nm):
    """GriddedForecast over an abstract region whose lookups read the stub catalog's cell / bin indices"""
    regions = L.load('csep.core.regions')
    forecasts = L.load('csep.core.forecasts')
    sdt = __import__('datetime')

    class IdxRegion(regions.CartesianGrid2D):
        def __init__(self, n):
            self.polygons = [None] * n
            self.magnitudes = None
            self.name = 'abstract'

        def get_index_of(self, lons, lats):
            return lons
    f = forecasts.GriddedForecast(start_time=sdt.datetime(2010, 1, 1), end_time=sdt.datetime(2010, 1, 11), data=F.rate_array(lam),
                                  region=IdxRegion(nc), magnitudes=symnp.asarray(np.array(MAGS[:nm])), name=name)
    f.get_magnitude_index = lambda mags, tol=None: mags
    return f


def _job_tw(job):
    L = C.twin()
    fn, N = job['fn'], job['N']
    cats = L.load('csep.core.catalogs')
    mod_ = L.load('csep.core.binomial_evaluations' if fn.startswith('binary') else 'csep.core.poisson_evaluations')
    nc, nm = 2, 2
    la, ca = F.sym_rates(nc, nm, 'a', allow_zero=False)
    lb, cb = F.sym_rates(nc, nm, 'b', allow_zero=False)
    cell = [z3.Int('cell%d' % i) for i in range(N)]
    mbin = [z3.Int('mbin%d' % i) for i in range(N)]
    p, pcons = perm_vars(N)
    cell2 = [select(p[j], cell) for j in range(N)]
    mbin2 = [select(p[j], mbin) for j in range(N)]
    EvObs = _event_obs_cls(cats, nc, nm)

    def run():
        for c in ca + cb + pcons:
            core.assume(c)
        for c, k in zip(cell, mbin):
            core.assume(z3.And(c >= 0, c < nc, k >= 0, k < nm))
        fa, fb = _abs_forecast(L, la, 'A', nc, nm), _abs_forecast(L, lb, 'B', nc, nm)
        out = []
        for (cs, bs) in ((cell, mbin), (cell2, mbin2)):
            r = getattr(mod_, fn)(fa, fb, EvObs(cs, bs, fa.region))
            out.append((r.observed_statistic, r.quantile, r.test_distribution))
        return out
    paths, trunc = core.explore(run, max_paths=6000)

    def cexf(mod, P):
        return {'kind': 'tw', 'fn': fn, 'nc': nc, 'nm': nm, 'events': [(core.int_from_model(mod, c), core.int_from_model(mod, k)) for c, k in zip(cell, mbin)],
                'perm': [core.int_from_model(mod, x) for x in p], 'rates': F.model_rates(mod, la), 'rates_b': F.model_rates(mod, lb)}

    def vio(P):
        (s1, q1, d1), (s2, q2, d2) = P.value
        bad = z3.Not(z3.And(same_value(s1, s2), same_value(q1, q2), same_value(d1, d2)))
        divs = P.notes.get('_divs', [])
        lem = [z3.Implies(z3.And(n1 == n2, d1_ == d2_), q1_ == q2_) for (q1_, n1, d1_), (q2_, n2, d2_) in itertools.combinations(divs, 2)]
        # cube-and-conquer over the N! permutations (they partition the assumption Distinct(p)): inside a cube the
        # ite-selections collapse and the two executions differ only by the order of their sums
        return [('statistic, quantile and interval identical for the re-ordered events',
                 z3.And(*lem, bad, *[p[j] == perm[j] for j in range(N)])) for perm in itertools.permutations(range(N))]
    # both runs raise the same way (e.g. all differences tied in the W test) -> same outcome
    obs = C.path_obligations([P for P in paths if P.kind == 'ok'], vio, cexf, replay, fn, 120, candidate_only=True)
    out = _agg(obs, paths, trunc)
    okp = [P for P in paths if P.kind == 'ok']
    if okp:
        out.append(C.reach_obligation(okp[0], lambda mod: (lambda r: ((not r[0]), r[1]))(replay(cexf(mod, okp[0])))))
    return {'obligations': [o.as_dict() for o in out], 'samples': [{'function': fn, 'events': N, 'permutation': 'symbolic', 'paths': len(paths)}]}


def _job_sim(job):
    L = C.twin()
    fn, N, m = job['fn'], job['N'], job['mod']
    cats = L.load('csep.core.catalogs')
    mod_ = L.load({'p': 'csep.core.poisson_evaluations', 'b': 'csep.core.binomial_evaluations', 'r': 'csep.core.brier_evaluations'}[m])
    nc, nm = 2, 1
    lam, lcons = F.sym_rates(nc, nm, allow_zero=False)
    cell = [z3.Int('cell%d' % i) for i in range(N)]
    mbin = [z3.Int('mbin%d' % i) for i in range(N)]
    p, pcons = perm_vars(N)
    cell2 = [select(p[j], cell) for j in range(N)]
    mbin2 = [select(p[j], mbin) for j in range(N)]
    EvObs = _event_obs_cls(cats, nc, nm)
    var = z3.Real('variance')

    def run():
        for c in lcons + pcons + F.axioms():
            core.assume(c)
        for c, k in zip(cell, mbin):
            core.assume(z3.And(c >= 0, c < nc, k >= 0, k < nm))
        fore = F.mk_forecast(L, lam)
        core.assume(var > z3.Sum([x for r in lam for x in r]))
        out = []
        for (cs, bs) in ((cell, mbin), (cell2, mbin2)):
            rec = core.CTX.notes.setdefault('random', {'seed_calls': [], 'draws': []})
            rec.update({'poisson_max': 2, 'max_draws': 16})
            n_seed = len(rec['seed_calls'])
            rec['draws'] = []                   # draws are a function of (seed, draw index): a re-run with the same seed sees the same draws
            obs = EvObs(cs, bs, fore.region)
            if fn == 'number_test':
                r = mod_.number_test(fore, obs)
            elif fn == 'negative_binomial_number_test':
                r = mod_.negative_binomial_number_test(fore, obs, XR(var))
            else:
                r = getattr(mod_, fn)(fore, obs, num_simulations=1, seed=1)
            out.append((r.observed_statistic, r.quantile, r.test_distribution, list(rec['seed_calls'][n_seed:])))
        return out
    paths, trunc = core.explore(run, max_paths=6000)

    def cexf(mod, P):
        return {'kind': 'sim', 'mod': m, 'fn': fn, 'nc': nc, 'nm': nm, 'seed': 1,
                'events': [(core.int_from_model(mod, c), core.int_from_model(mod, k)) for c, k in zip(cell, mbin)],
                'perm': [core.int_from_model(mod, x) for x in p], 'rates': F.model_rates(mod, lam),
                'variance': float(core.real_from_model(mod, var))}

    def vio(P):
        (s1, q1, d1, sd1), (s2, q2, d2, sd2) = P.value
        return [('same seed: statistic, quantile and every simulated entry identical for the re-ordered events',
                 z3.Not(z3.And(z3.BoolVal(sd1 == sd2), same_value(s1, s2), same_value(q1, q2), same_value(d1, d2))))]
    obs = C.path_obligations(paths, vio, cexf, replay, fn, 120, candidate_only=True)
    out = _agg(obs, paths, trunc)
    okp = [P for P in paths if P.kind == 'ok']
    if okp:
        out.append(C.reach_obligation(okp[0], lambda mod: (lambda r: ((not r[0]), r[1]))(replay(cexf(mod, okp[0])))))
    return {'obligations': [o.as_dict() for o in out], 'samples': [{'function': fn, 'events': N, 'permutation': 'symbolic', 'paths': len(paths)}]}


def _job_cats(job):
    """catalog-based tests: the forecast's synthetic catalogs in their order and permuted"""
    from . import C10
    L = C.twin()
    fn, J = job['fn'], job['J']
    ce = L.load('csep.core.catalog_evaluations')
    forecasts = L.load('csep.core.forecasts')
    nc, nm = (1, 2) if fn == 'magnitude_test' else (2, 1)
    csd = z3.Function('csd', *([z3.RealSort()] * (2 * nm + 1)))

    def csd_uf(a, b):
        # the scoring kernel (decided against its definition in C10) as a function of its arguments
        args = [core.R(x).v for x in flat(symnp.asarray(a))] + [core.R(x).v for x in flat(symnp.asarray(b))]
        return XR(csd(*args))
    ce.cumulative_square_diff = csd_uf
    c = [[[z3.Int('c%d_%d_%d' % (j, i, k)) for k in range(nm)] for i in range(nc)] for j in range(J)]
    o = [[z3.Int('o_%d_%d' % (i, k)) for k in range(nm)] for i in range(nc)]
    if job.get('perm') is not None:
        # the permutation of the synthetic catalogs is enumerated (one job per permutation): the relational query stays small
        p, pcons = [z3.IntVal(x) for x in job['perm']], []
        c2 = [c[l] for l in job['perm']]
    else:
        p, pcons = perm_vars(J)
        c2 = [[[select(p[j], [c[l][i][k] for l in range(J)]) for k in range(nm)] for i in range(nc)] for j in range(J)]
    flat_c = [x for cj in c for row in cj for x in row]
    flat_o = [x for row in o for x in row]
    cmax = job.get('cmax', 2)
    cons = [z3.And(x >= 0, x <= cmax) for x in flat_c + flat_o] + [z3.Sum(flat_c) > 0, z3.Sum(flat_o) <= 2] + pcons

    def run():
        for x in cons + F.axioms():
            core.assume(x)
        out = []
        for cc in (c, c2):
            reg, lat = F.small_region(L, nc)
            reg.magnitudes = symnp.asarray(np.array(MAGS[:nm]))
            reg.num_mag_bins = nm
            stubs = [F.ObsStub(L, cc[j], reg, 2, name='c%d' % j) for j in range(J)]
            fc = forecasts.CatalogForecast(catalogs=stubs, region=reg, n_cat=J, name='cf')
            res = getattr(ce, fn)(fc, F.ObsStub(L, o, reg, 2), verbose=False)
            rates = fc.get_expected_rates().data if fn != 'number_test' else None
            out.append(None if res is None else (res.status, res.observed_statistic, res.quantile, res.test_distribution, rates))
        return out
    paths, trunc = core.explore(run, max_paths=8000)

    def cexf(mod, P):
        return {'kind': 'cats', 'fn': fn, 'cats': [[[core.int_from_model(mod, x) for x in row] for row in cj] for cj in c],
                'obs': [[core.int_from_model(mod, x) for x in row] for row in o], 'perm': job['perm'] if job.get('perm') is not None else [core.int_from_model(mod, x) for x in p]}

    def vio(P):
        r1, r2 = P.value
        if r1 is None or r2 is None:
            return [('both orders yield a result or none', z3.BoolVal((r1 is None) != (r2 is None)))]
        (st1, s1, q1, d1, e1), (st2, s2, q2, d2, e2) = r1, r2
        ok = [z3.BoolVal(st1 == st2), same_value(s1, s2), same_value(q1, q2), multiset_eq(d1, d2)]
        if e1 is not None:
            ok.append(same_value(e1, e2))
        # a quotient is a function of numerator and denominator
        divs = P.notes.get('_divs', [])
        lem = [z3.Implies(z3.And(n1 == n2, d1_ == d2_), q1_ == q2_) for (q1_, n1, d1_), (q2_, n2, d2_) in itertools.combinations(divs, 2)]
        return [('status, statistic, quantile, expected rates identical and test distribution equal as a multiset', z3.And(*lem, z3.Not(z3.And(ok))))]
    obs = C.path_obligations(paths, vio, cexf, replay, fn, 120, candidate_only=True)
    out = _agg(obs, paths, trunc)
    okp = [P for P in paths if P.kind == 'ok' and P.value[0] is not None]
    if okp:
        out.append(C.reach_obligation(okp[0], lambda mod: (lambda r: ((not r[0]), r[1]))(replay(cexf(mod, okp[0])))))
    return {'obligations': [o_.as_dict() for o_ in out], 'samples': [{'function': fn, 'synthetic catalogs': J, 'permutation': 'symbolic', 'paths': len(paths)}]}


# ---- cell order ----------------------------------------------------------------------------------------------------------------------

def _cells_lattices(shape):
    if shape == '2x2':
        args = ('2x2', 2, 2, 0.5, (10.0, 40.0))
        kw = {}
    else:
        args = ('3x3-hole', 3, 3, 0.5, (10.0, 40.0))
        kw = {'holes': ((1, 1),)}
    return C.lattice(*args, order='row', **kw), C.lattice(*args, order='shuffle', **kw)


def _replay_cells(cex):
    C.real_csep()
    from csep.core import regions, forecasts, poisson_evaluations as pe
    from csep.core.catalogs import CSEPCatalog
    from csep import models
    latA, latB = _cells_lattices(cex['shape'])
    nm = cex['nm']
    mags = np.array(MAGS[:nm])
    res = []
    for lat in (latA, latB):
        if cex.get('via') == 'from_origins':
            reg = regions.CartesianGrid2D.from_origins(np.array([list(o) for o in lat['origins']]), dh=lat['dh'])
        else:
            reg = C.build_region(regions, models, lat)
        data = np.array([cex['rates'][str(tuple(cell))] if isinstance(cex['rates'], dict) else None for cell in lat['cells']], dtype=float)
        fo = forecasts.GriddedForecast(data=data, region=reg, magnitudes=mags, name='f')
        ev = [('e%d' % i, 0, la, lo, 10.0, m) for i, (lo, la, m) in enumerate(cex['events'])]
        cat = CSEPCatalog(data=ev, region=reg)
        out = {}
        try:
            out['rates'] = np.asarray(fo.get_rates(cat.get_longitudes(), cat.get_latitudes(), cat.get_magnitudes()), dtype=float).tolist()
        except Exception as e:
            out['rates'] = type(e).__name__
        try:
            smc = np.asarray(cat.spatial_magnitude_counts(), dtype=float)
            out['counts'] = {str(tuple(cell)): smc[i].tolist() for i, cell in enumerate(lat['cells'])}
        except Exception as e:
            out['counts'] = type(e).__name__
        for fn in ('number_test', 'likelihood_test', 'spatial_test'):
            try:
                kw = {} if fn == 'number_test' else dict(num_simulations=0, seed=1)      # no simulations: the observed statistic only
                r = getattr(pe, fn)(fo, cat, **kw)
                out[fn] = (float(r.observed_statistic), [float(x) for x in np.atleast_1d(r.quantile)] if fn == 'number_test' else None)
            except Exception as e:
                out[fn] = type(e).__name__
        res.append(out)
    msgs = []
    for k in res[0]:
        a, b = res[0][k], res[1][k]
        same = a == b
        if not same and not isinstance(a, str) and not isinstance(b, str) and k not in ('counts',):
            try:
                same = np.allclose(np.asarray(a[0] if isinstance(a, tuple) else a, dtype=float), np.asarray(b[0] if isinstance(b, tuple) else b, dtype=float), rtol=1e-9, equal_nan=True)
            except Exception:
                same = False
        if not same:
            msgs.append('%s: %r with row-major cells, %r with shuffled cells' % (k, a, b))
    return bool(msgs), 'events %r: %s' % (cex['events'], '; '.join(msgs) or 'same outcome for both cell orders')


def _job_cells(job):
    L = C.twin()
    regions = L.load('csep.core.regions')
    models = L.load('csep.models')
    forecasts = L.load('csep.core.forecasts')
    cats = L.load('csep.core.catalogs')
    pe = L.load('csep.core.poisson_evaluations')
    latA, latB = _cells_lattices(job['shape'])
    nm = 2
    N = job.get('N', 1)
    mags_edges = MAGS[:nm]
    # both construction routes: polygons handed to the constructor, and the from_origins classmethod (used by from_dict and by
    # user code) fed with the origins in the lattice's own order
    if job.get('via') == 'from_origins':
        regs = [regions.CartesianGrid2D.from_origins(symnp.asarray(np.array([list(o) for o in lat['origins']])), dh=lat['dh']) for lat in (latA, latB)]
    else:
        regs = [C.build_region(regions, models, lat, np_mod=symnp) for lat in (latA, latB)]
    # assume-guarantee: bin1d_vec on symbolic values is replaced by the exact half-open contract that C01 / C02 decide for
    # the real kernel (lower edge inclusive, upper exclusive, open or closed at the top); concrete calls run the real kernel
    real_b1 = regions.bin1d_vec

    def contract_bin1d(pts, bins, tol=None, right_continuous=False):
        pa = symnp.asarray(pts)
        if not any(core.is_sym(e) for e in pa.a.reshape(-1)):
            return real_b1(pts, bins, tol=tol, right_continuous=right_continuous)
        edges = [float(x) for x in symnp.unwrap(symnp.asarray(bins)).reshape(-1)]
        n = len(edges)
        h = edges[1] - edges[0] if n > 1 else 0.0
        out = np.empty(pa.a.shape, dtype=object)
        for pos in np.ndindex(*pa.a.shape):
            v = core.R(pa.a[pos]).v
            t = z3.Sum([z3.If(v >= core._rv(e), 1, 0) for e in edges]) - 1
            if not right_continuous and n > 1:
                t = z3.If(v >= core._rv(edges[-1] + h), -1, t)
            out[pos] = SInt(t, dom=(-1, n - 1))
        return symnp.SArr(out, core.DTI)
    for m_ in (regions, cats, forecasts):
        if hasattr(m_, 'bin1d_vec'):
            m_.bin1d_vec = contract_bin1d
    geo = sorted(tuple(c) for c in latA['cells'])
    r = {g: [z3.Real('r_%d_%d_%d' % (g[0], g[1], k)) for k in range(nm)] for g in geo}
    lons = [z3.Real('lon%d' % i) for i in range(N)]
    lats = [z3.Real('lat%d' % i) for i in range(N)]
    ms = [z3.Real('m%d' % i) for i in range(N)]
    from . import C03

    def data_for(lat):
        a = np.empty((len(lat['cells']), nm), dtype=object)
        for i, cell in enumerate(lat['cells']):
            for k in range(nm):
                a[i, k] = XR(r[tuple(cell)][k])
        return symnp.SArr(a, core.DT64)

    def run():
        for g in geo:
            for x in r[g]:
                core.assume(z3.And(x > 0, x < 1000))
        for m in ms:
            core.assume(C03._band_free(m, mags_edges))
            core.assume(z3.And(m > 0, m < 10))
        for v in lons + lats:
            core.assume(z3.And(v > -400, v < 400))
        out = []
        for lat, reg in zip((latA, latB), regs):
            fo = forecasts.GriddedForecast(data=data_for(lat), region=reg, magnitudes=symnp.asarray(np.array(mags_edges)), name='f')
            mk = lambda: C03._mk_catalog(cats, N, lons, lats, ms, reg)
            o = {}
            o['rates'] = guarded(lambda: fo.get_rates(mk().get_longitudes(), mk().get_latitudes(), mk().get_magnitudes()))
            smc = guarded(lambda: mk().spatial_magnitude_counts())
            o['counts'] = smc if isinstance(smc, Exception) else {tuple(cell): [smc.a[i, k] for k in range(nm)] for i, cell in enumerate(lat['cells'])}
            for fn in ('number_test', 'likelihood_test', 'spatial_test'):
                def call():
                    rec = core.CTX.notes.setdefault('random', {'seed_calls': [], 'draws': []})
                    rec.update({'poisson_max': 1, 'max_draws': 8})
                    rec['draws'] = []
                    res = getattr(pe, fn)(fo, mk()) if fn == 'number_test' else getattr(pe, fn)(fo, mk(), num_simulations=0, seed=1)
                    return (res.observed_statistic, res.quantile if fn == 'number_test' else None)
                o[fn] = guarded(call)
            out.append(o)
        return out
    paths, trunc = core.explore(run, max_paths=20000)

    def cexf(mod, P):
        f = lambda t: float(core.real_from_model(mod, t))
        return {'kind': 'cells', 'shape': job['shape'], 'via': job.get('via'), 'nm': nm, 'events': [(f(a), f(b), f(c)) for a, b, c in zip(lons, lats, ms)],
                'rates': {str(g): [f(x) for x in r[g]] for g in geo}}

    def vio(P):
        a, b = P.value
        qs = [('get_rates identical for both cell orders', z3.Not(same_value(a['rates'], b['rates'])))]
        ca, cb = a['counts'], b['counts']
        if isinstance(ca, Exception) or isinstance(cb, Exception):
            qs.append(('gridded counts: same outcome', z3.Not(same_value(ca, cb))))
        else:
            qs.append(('gridded counts agree cell by cell', z3.Not(z3.And([same_value(ca[g], cb[g]) for g in geo]))))
        for fn in ('number_test', 'likelihood_test', 'spatial_test'):
            x, y = a[fn], b[fn]
            if isinstance(x, Exception) or isinstance(y, Exception):
                qs.append(('%s: same outcome' % fn, z3.Not(same_value(x, y))))
            else:
                divs = P.notes.get('_divs', [])
                lem = [z3.Implies(z3.And(n1 == n2, d1_ == d2_), q1_ == q2_) for (q1_, n1, d1_), (q2_, n2, d2_) in itertools.combinations(divs, 2)]
                qs.append(('%s: observed statistic%s identical' % (fn, ' and quantiles' if fn == 'number_test' else ''),
                           z3.And(*lem, z3.Not(z3.And(same_value(x[0], y[0]), same_value(x[1], y[1]))))))
        return qs
    obs = C.path_obligations(paths, vio, cexf, replay, 'cell order', 120, candidate_only=True)
    out = _agg(obs, paths, trunc)
    okp = [P for P in paths if P.kind == 'ok' and not isinstance(P.value[0]['counts'], Exception)]
    if okp:
        out.append(C.reach_obligation(okp[0], lambda mod: (lambda rr: ((not rr[0]), rr[1]))(replay(cexf(mod, okp[0])))))
    return {'obligations': [o_.as_dict() for o_ in out],
            'samples': [{'lattice': job['shape'], 'orders': 'row-major vs shuffled', 'events': N, 'rates': 'symbolic per geometric cell', 'paths': len(paths)}]}
