"""C07 -- number tests report the exact tail probabilities of the forecast count law (DESIGN 4/C07)."""
import math

import numpy as np
import z3

from symx import core, symnp
from symx.core import XR, SInt, SBV, SFP, F64, fpconst
from symx.harness import Obligation
from . import common as C
from . import evalfix as F

ID = 'C07'
KNOWN_KEYS = {}
META = {
    'functions': ['csep/core/poisson_evaluations.py _number_test_ndarray', 'csep/core/poisson_evaluations.py number_test',
                  'csep/core/binomial_evaluations.py _nbd_number_test_ndarray', 'csep/core/binomial_evaluations.py negative_binomial_number_test',
                  'csep/core/catalog_evaluations.py number_test', 'csep/utils/stats.py get_quantiles',
                  'csep/core/forecasts.py GriddedForecast.scale/event_count'],
    'theory': 'FP64 bit-exact for the epsilon arithmetic floor(n -/+ 1e-6); reals + uninterpreted CDFs with contract for the '
              'tail-probability identities; NBD parameters as rational-function identities; catalog N-test over integer counts',
    'bounds': {'quick': 'n_obs every integer in [0, 1e10] (FP64 part); forecast 2x2 bins with a symbolic scale factor; '
                        'catalog N-test with J <= 4 synthetic catalog sizes',
               'thorough': 'J <= 6'},
    'outside': ['numerical accuracy of scipy CDF evaluation (contract)', 'n_obs > 1e10'],
    'stubs': ['scipy.stats.poisson.cdf(x, mu) = Fpois(floor(x), mu), nbinom.cdf(x, r, p) = Fnb(floor(x), r, p): uninterpreted, '
              'in [0,1], Fpois(k<0) = 0, non-decreasing in k, non-increasing in mu'],
    'assumptions': ['forecast total > 0', 'variance > mean > 0 for the NBD test'],
}


def replay(cex):
    C.real_csep()
    import scipy.stats
    from csep.core import poisson_evaluations as pe, binomial_evaluations as be, catalog_evaluations as ce
    k = cex['kind']
    if cex.get('eps'):
        # the clause is about WHERE the cdf is evaluated (n - 1 and n). The cdf is a step function with a positive jump at every
        # integer, so this is decided on the VALUES the real code returns (however it reaches scipy: plain or frozen distribution)
        n = int(cex['n'])

        class Fo:
            event_count = 12.5
            name = 'f'
            magnitudes = np.array([5.0, 6.0])

        class Ca:
            event_count = n
            name = 'c'
        try:
            if cex.get('public'):
                q = (pe.number_test(Fo(), Ca()) if k == 'pois' else be.negative_binomial_number_test(Fo(), Ca(), 40.0)).quantile
            else:
                q = (pe._number_test_ndarray(12.5, n) if k == 'pois' else be._nbd_number_test_ndarray(12.5, n, 40.0))
        except Exception as e:
            return True, 'n_obs=%d: raised %r' % (n, e)
        if k == 'pois':
            w1, w2 = 1.0 - scipy.stats.poisson.cdf(n - 1, 12.5), scipy.stats.poisson.cdf(n, 12.5)
        else:
            r_, p_ = 12.5 * 12.5 / (40.0 - 12.5), 12.5 / 40.0
            w1, w2 = 1.0 - scipy.stats.nbinom.cdf(n - 1, r_, p_), scipy.stats.nbinom.cdf(n, r_, p_)
        bad = not (abs(float(q[0]) - w1) <= 1e-12 and abs(float(q[1]) - w2) <= 1e-12)
        return bad, 'n_obs=%d: (delta1, delta2) = %r, 1 - cdf(n-1) and cdf(n) are (%r, %r)' % (n, tuple(float(x) for x in q), w1, w2)
    if False:
        n = int(cex['n'])
        seen = []
        dist = scipy.stats.poisson if k == 'pois' else scipy.stats.nbinom
        orig = dist.cdf

        def cap(x, *a, **kw):
            seen.append(float(x))
            return orig(x, *a, **kw)
        dist.cdf = cap
        try:
            class Fo:
                event_count = 12.5
                name = 'f'
                magnitudes = np.array([5.0, 6.0])

            class Ca:
                event_count = n
                name = 'c'
            if cex.get('public'):
                (pe.number_test(Fo(), Ca()) if k == 'pois' else be.negative_binomial_number_test(Fo(), Ca(), 40.0))
            else:
                (pe._number_test_ndarray(12.5, n) if k == 'pois' else be._nbd_number_test_ndarray(12.5, n, 40.0))
        finally:
            dist.cdf = orig
        bad = [math.floor(v) for v in seen] != [n - 1, n]
        return bad, 'n_obs=%d: cdf evaluated at %r (floors %r), expected floors %r' % (n, seen, [math.floor(v) for v in seen], [n - 1, n])
    if k == 'pois':
        n, mu = int(cex['n']), float(cex['mu'])
        d1, d2 = pe._number_test_ndarray(mu, n)
        w1 = 1.0 - scipy.stats.poisson.cdf(n - 1, mu)
        w2 = scipy.stats.poisson.cdf(n, mu)
        bad = not (abs(d1 - w1) <= 1e-12 and abs(d2 - w2) <= 1e-12)
        return bad, '_number_test_ndarray(%r, %r) = (%r, %r); P(N>=n)=%r P(N<=n)=%r' % (mu, n, d1, d2, w1, w2)
    if k == 'nbd':
        n, mu, var = int(cex['n']), float(cex['mu']), float(cex['var'])
        d1, d2 = be._nbd_number_test_ndarray(mu, n, var)
        r, p = mu * mu / (var - mu), mu / var
        w1 = 1.0 - scipy.stats.nbinom.cdf(n - 1, r, p)
        w2 = scipy.stats.nbinom.cdf(n, r, p)
        bad = not (abs(d1 - w1) <= 1e-9 and abs(d2 - w2) <= 1e-9)
        return bad, '_nbd_number_test_ndarray(%r, %r, %r) = (%r, %r); P(N>=n)=%r P(N<=n)=%r' % (mu, n, var, d1, d2, w1, w2)
    if k == 'public':
        from . import C05
        fore, cat = C05._real_setup(cex['rates'], cex['counts'])
        if cex.get('scale') is not None:
            fore.scale(cex['scale'])
        res = pe.number_test(fore, cat)
        n = int(np.sum(cex['counts']))
        mu = float(np.sum(np.array(cex['rates']) * (cex['scale'] if cex.get('scale') is not None else 1)))
        w1 = 1.0 - scipy.stats.poisson.cdf(n - 1, mu)
        w2 = scipy.stats.poisson.cdf(n, mu)
        d1, d2 = res.quantile
        bad = not (abs(d1 - w1) <= 1e-9 and abs(d2 - w2) <= 1e-9 and res.observed_statistic == n)
        return bad, 'number_test: quantile %r, statistic %r; expected (%r, %r), %d' % (res.quantile, res.observed_statistic, w1, w2, n)
    if k == 'cat':
        sizes, n = [int(x) for x in cex['sizes']], int(cex['n'])

        class Cat:
            def __init__(self, c): self.event_count = c; self.name = 'c'
            def __str__(self): return 'cat'

        class Fc(list):
            name = 'fc'
            min_magnitude = 5.0
        res = ce.number_test(Fc([Cat(c) for c in sizes]), Cat(n), verbose=False)
        J = len(sizes)
        w1 = sum(1 for s in sizes if s >= n) / J
        w2 = sum(1 for s in sizes if s <= n) / J
        d1, d2 = res.quantile
        bad = not (abs(d1 - w1) < 1e-12 and abs(d2 - w2) < 1e-12 and list(res.test_distribution) == sizes and res.observed_statistic == n)
        return bad, 'catalog number_test(sizes %r, n=%d): quantile %r, expected (%r, %r)' % (sizes, n, res.quantile, w1, w2)
    raise ValueError(k)


def jobs(tier, seed):
    out = [{'name': 'epsilon arithmetic FP64 (poisson)', 'kind': 'eps', 'which': 'pois'},
           {'name': 'epsilon arithmetic FP64 (NBD)', 'kind': 'eps', 'which': 'nbd'},
           {'name': 'epsilon arithmetic FP64 (poisson, public number_test)', 'kind': 'eps', 'which': 'pois', 'public': True},
           {'name': 'epsilon arithmetic FP64 (NBD, public test)', 'kind': 'eps', 'which': 'nbd', 'public': True},
           {'name': 'poisson tail identities', 'kind': 'pois'},
           {'name': 'poisson number_test public, scaled forecast', 'kind': 'public'},
           {'name': 'NBD parameters and tails', 'kind': 'nbd'}]
    for J in range(1, (4 if tier == 'quick' else 6) + 1):
        out.append({'name': 'catalog N-test J=%d' % J, 'kind': 'cat', 'J': J})
    for j in out:
        j['tier'] = tier
        j['wall'] = 600
    return out


def run_job(job):
    snap = C.stats_snapshot()
    res = globals()['_job_' + job['kind']](job)
    res.update(C.stats_delta(snap))
    return res


class _Rec:
    """records the arguments handed to a distribution's cdf and answers with fresh symbolic values"""

    def __init__(self):
        self.calls = []

    def cdf(self, *args, **kw):
        self.calls.append(args)
        k = len(self.calls)
        if core.MODE['float'] == 'fp':
            return SFP(z3.FP('cdf!%d' % k, F64))
        return XR(z3.Real('cdf!%d' % k))

    def __call__(self, *params, **kw):
        # frozen distribution: scipy.stats.poisson(mu).cdf(x) is poisson.cdf(x, mu)
        outer = self

        class Frozen:
            def cdf(self_, x):
                return outer.cdf(x, *params)
        return Frozen()


def _job_eps(job):
    """floor(fl(n - 1e-6)) = n - 1 and floor(fl(n + 1e-6)) = n for every integer n in [0, 1e10], bit-exact"""
    core.MODE['float'] = 'fp'
    L = C.twin()
    which = job['which']
    n = z3.BitVec('n', 64)
    rec = _Rec()
    if which == 'pois':
        m = L.load('csep.core.poisson_evaluations')
        m.scipy.stats.poisson = rec
    else:
        m = L.load('csep.core.binomial_evaluations')
        m.scipy.stats.nbinom = rec

    def run():
        rec.calls.clear()
        core.assume(z3.And(n >= 0, n <= 10 ** 10))
        if job.get('public'):
            class Fo:
                event_count = 12.5
                name = 'f'
                magnitudes = symnp.asarray(np.array([5.0, 6.0]))

            class Ca:
                event_count = SBV(n)
                name = 'c'
            if which == 'pois':
                m.number_test(Fo(), Ca())
            else:
                m.negative_binomial_number_test(Fo(), Ca(), 40.0)
        elif which == 'pois':
            m._number_test_ndarray(12.5, SBV(n))
        else:
            m._nbd_number_test_ndarray(12.5, SBV(n), 40.0)
        return [c[0] for c in rec.calls]
    paths, _ = core.explore(run)

    def cexf(mod, P):
        return {'kind': which, 'n': core.int_from_model(mod, n), 'mu': 12.5, 'var': 40.0, 'eps': True, 'public': bool(job.get('public'))}

    def vio(P):
        xs = P.value
        if len(xs) != 2:
            return z3.BoolVal(True)
        nf = z3.fpSignedToFP(core.RNE, n, F64)
        f1 = z3.fpRoundToIntegral(core.RTN, xs[0].t)
        f2 = z3.fpRoundToIntegral(core.RTN, xs[1].t)
        return z3.Or(z3.Not(z3.fpEQ(f1, z3.fpSub(core.RNE, nf, fpconst(1.0)))), z3.Not(z3.fpEQ(f2, nf)))
    obs = C.path_obligations(paths, vio, cexf, replay, 'cdf evaluated at n-1 and n for every n in [0, 1e10]', 200)
    return {'obligations': [o.as_dict() for o in obs], 'samples': [{'n_obs': 'every integer in [0, 1e10]', 'which': which}]}


def _cdf_contract(f, ks, mus):
    """instances of the CDF contract for the (k, mu) pairs that occur"""
    ax = []
    for k in ks:
        for mu in mus:
            ax.append(z3.And(f(k, mu) >= 0, f(k, mu) <= 1))
            ax.append(f(k - 1, mu) <= f(k, mu))
            ax.append(z3.Implies(k < 0, f(k, mu) == 0))
    if len(mus) == 2:
        for k in ks:
            ax.append(z3.Implies(mus[0] <= mus[1], f(k, mus[0]) >= f(k, mus[1])))
    return ax


def _job_pois(job):
    core.MODE['float'] = 'xr'
    L = C.twin()
    pe = L.load('csep.core.poisson_evaluations')
    n = z3.Int('n')
    mu1, mu2 = z3.Real('mu1'), z3.Real('mu2')
    Fp = core.uf('Fpois', 2)

    def run():
        core.assume(z3.And(n >= 0, n <= 10 ** 5, mu1 > 0, mu2 > 0, mu1 <= mu2))
        for a in _cdf_contract(Fp, [z3.ToReal(n), z3.ToReal(n) - 1], [mu1, mu2]):
            core.assume(a)
        a = pe._number_test_ndarray(XR(mu1), SInt(n))
        b = pe._number_test_ndarray(XR(mu2), SInt(n))
        return a, b
    paths, _ = core.explore(run)

    def cexf(mod, P):
        return {'kind': 'pois', 'n': core.int_from_model(mod, n), 'mu': float(core.real_from_model(mod, mu1))}

    def vio(P):
        (a1, a2), (b1, b2) = P.value
        nr = z3.ToReal(n)
        a1, a2, b1, b2 = [core.R(x) for x in (a1, a2, b1, b2)]
        ok = z3.And(a1.v == 1 - Fp(nr - 1, mu1), a2.v == Fp(nr, mu1),
                    a1.v + a2.v == 1 + (Fp(nr, mu1) - Fp(nr - 1, mu1)),
                    a1.v >= 0, a1.v <= 1, a2.v >= 0, a2.v <= 1,
                    b1.v >= a1.v, b2.v <= a2.v)
        return z3.Not(ok)
    obs = C.path_obligations(paths, vio, cexf, replay, 'delta1 = P(N>=n), delta2 = P(N<=n), sum, range, monotone in mu', 120, candidate_only=True)
    return {'obligations': [o.as_dict() for o in obs], 'samples': [{'n_obs': 'symbolic 0..1e5', 'mu': 'two symbolic means mu1 <= mu2'}]}


def _job_public(job):
    core.MODE['float'] = 'xr'
    L = C.twin()
    pe = L.load('csep.core.poisson_evaluations')
    lam, lcons = F.sym_rates(2, 2)
    w, wcons = F.sym_counts(2, 2, cmax=3)
    sc = z3.Real('scale')
    Fp = core.uf('Fpois', 2)

    def run():
        for c in lcons + wcons:
            core.assume(c)
        core.assume(sc > 0)
        fore = F.mk_forecast(L, lam)
        fore.scale(XR(z3.Real('s0')))         # an earlier scaling must not accumulate
        core.assume(z3.Real('s0') > 0)
        fore.scale(XR(sc))
        obs = F.ObsStub(L, w, fore.region, 3)
        res = pe.number_test(fore, obs)
        return res.quantile, res.observed_statistic, res.test_distribution
    paths, _ = core.explore(run)
    tot = z3.Sum([x for r in lam for x in r])
    nobs = z3.Sum([x for r in w for x in r])

    def cexf(mod, P):
        return {'kind': 'public', 'rates': F.model_rates(mod, lam), 'counts': F.model_counts(mod, w), 'scale': float(core.real_from_model(mod, sc))}

    def vio(P):
        (d1, d2), stat, dist = P.value
        d1, d2 = core.R(d1), core.R(d2)
        st = core.R(stat)
        mu = tot * sc
        # the forecast total may be summed in any order: compare through an equality on the UF argument
        m = z3.Real('mu_arg')
        return z3.And(m == mu, z3.Not(z3.And(d1.v == 1 - Fp(z3.ToReal(nobs) - 1, m), d2.v == Fp(z3.ToReal(nobs), m), st.v == z3.ToReal(nobs))))
    obs = C.path_obligations(paths, vio, cexf, replay, 'number_test uses N_obs and the scaled forecast total', 120, candidate_only=True)
    return {'obligations': [o.as_dict() for o in obs], 'samples': [{'forecast': '2x2 symbolic rates, scaled twice (absolute)', 'counts': 'symbolic 0..3'}]}


def _job_nbd(job):
    core.MODE['float'] = 'xr'
    L = C.twin()
    be = L.load('csep.core.binomial_evaluations')
    rec = _Rec()
    be.scipy.stats.nbinom = rec
    n = z3.Int('n')
    mu, var = z3.Real('mu'), z3.Real('var')

    def run():
        rec.calls.clear()
        core.assume(z3.And(n >= 0, n <= 10 ** 5, mu > 0, var > mu))
        d = be._nbd_number_test_ndarray(XR(mu), SInt(n), XR(var))
        return d, list(rec.calls)
    paths, _ = core.explore(run)

    def cexf(mod, P):
        return {'kind': 'nbd', 'n': core.int_from_model(mod, n), 'mu': float(core.real_from_model(mod, mu)), 'var': float(core.real_from_model(mod, var))}

    def vio(P):
        (d1, d2), calls = P.value
        if len(calls) != 2:
            return z3.BoolVal(True)
        bad = []
        for (x, r, p), want_k in zip(calls, (z3.ToReal(n) - 1, z3.ToReal(n))):
            x, r, p = core.R(x), core.R(r), core.R(p)
            bad.append(z3.ToReal(z3.ToInt(x.v)) != want_k)
            bad.append(r.v * (var - mu) != mu * mu)        # r = mu^2 / (var - mu)
            bad.append(p.v * var != mu)                    # p = mu / var
        c1 = z3.Real('cdf!1')
        c2 = z3.Real('cdf!2')
        bad.append(core.R(d1).v != 1 - c1)
        bad.append(core.R(d2).v != c2)
        return z3.Or(bad)
    obs = C.path_obligations(paths, vio, cexf, replay, 'NBD cdf called at n-1 / n with r = mu^2/(var-mu), p = mu/var', 120, candidate_only=True)
    return {'obligations': [o.as_dict() for o in obs], 'samples': [{'n_obs': 'symbolic', 'mean/variance': 'symbolic, variance > mean > 0'}]}


def _job_cat(job):
    core.MODE['float'] = 'xr'
    L = C.twin()
    ce = L.load('csep.core.catalog_evaluations')
    J = job['J']
    sizes = [z3.Int('c%d' % j) for j in range(J)]
    n = z3.Int('n')

    class Cat:
        def __init__(self, c):
            self.event_count = c
            self.name = 'c'

        def __str__(self):
            return 'cat'

    class Fc(list):
        name = 'fc'
        min_magnitude = 5.0

    def run():
        for c in sizes + [n]:
            core.assume(c >= 0)
        fc = Fc([Cat(SInt(c)) for c in sizes])
        res = ce.number_test(fc, Cat(SInt(n)), verbose=False)
        return res.quantile, res.observed_statistic, res.test_distribution
    paths, _ = core.explore(run)
    from .C09 import _count_eq, _rt

    def cexf(mod, P):
        return {'kind': 'cat', 'sizes': [core.int_from_model(mod, c) for c in sizes], 'n': core.int_from_model(mod, n)}

    def vio(P):
        (d1, d2), stat, dist = P.value
        ok = [_count_eq(_rt(d1), [c >= n for c in sizes], J), _count_eq(_rt(d2), [c <= n for c in sizes], J)]
        ok.append(core.R(stat).v == z3.ToReal(n))
        ok.append(z3.BoolVal(len(dist) == J))
        for d, c in zip(dist, sizes):
            ok.append(core.R(d).v == z3.ToReal(c))
        return z3.Not(z3.And(ok))
    obs = C.path_obligations(paths, vio, cexf, replay, 'catalog N-test = empirical tail probabilities of the catalog sizes', 120)
    return {'obligations': [o.as_dict() for o in obs], 'samples': [{'J': J, 'sizes': 'symbolic non-negative integers', 'paths': len(paths)}]}
