"""C18 -- evaluation results and regions survive serialization (DESIGN 4/C18).

Result half: the real EvaluationResult.to_dict / write_json (FileSystem.save) / load_evaluation_result / from_dict run on
result objects whose fields are *symbolic values with a Python-type tag* (extended reals with free NaN/inf flags, integers,
None, tuples / lists / ndarrays of them, opaque strings). The JSON layer is the type-rule contract of symio.JsonModel
(conformance-tested here against the real json module). The tag signatures for which a violation counts are the ones the
real evaluation functions produce (discovered by running every public evaluation function of the real package on a small
input family at the start of the job) -- "every result class and every evaluation function that can produce it".

Region half: for each unmasked lattice the original region and from_dict(to_dict()) (dictionary passed through the real
json text form) are built by the re-imported code; z3 decides bit-exactly (QF_BVFP) that no finite (lon, lat) gets a
different outcome (index or ValueError) from the two regions.
"""
import json as rjson
import math
import os
import tempfile
import warnings

import numpy as np
import z3

from symx import core, symnp, symio
from symx.core import SFP, SBV, SInt, XR, F64
from symx.harness import Obligation
from . import common as C

ID = 'C18'
KNOWN_KEYS = {}
META = {
    'functions': ['csep/models.py EvaluationResult.__init__/to_dict/from_dict (and the five result subclasses)',
                  'csep/__init__.py load_evaluation_result', 'csep/core/repositories.py write_json / FileSystem.save',
                  'csep/core/regions.py CartesianGrid2D.to_dict/from_dict/from_origins/__init__/get_index_of',
                  'csep/utils/calc.py bin1d_vec (FP64, inside both regions)'],
    'theory': 'result half: extended reals (free NaN / +-inf flags), integers, type tags enumerated; region half: QF_BVFP bit-exact',
    'bounds': {'quick': 'result classes: all 7 (base + 6 registered); tag signatures: every signature produced by the real '
                        'evaluation functions on the input family + all single-field variations; test distributions of 0..3 '
                        'elements; region: lattice family without flagged cells, every finite (lon, lat)',
               'thorough': 'full product of field tags per class; region: every third lattice of the thorough family (25 spacing/anchor x 3 orders x 8 shapes)'},
    'outside': ['byte-level JSON formatting and parsing (type-rule contract of the json stub)',
                'results whose test_distribution is not numeric (W-test stores the string "normal")',
                'regions with flagged (masked) cells: the dictionary form does not carry the mask'],
    'stubs': ['json.dump/json.load: type rules of the real encoder (tuple->list, float subclasses as floats incl. NaN/Infinity, '
              'non-JSON types through default=str), conformance-tested against the real json module in this check'],
    'assumptions': ['field values are of the Python types the evaluation functions return (discovered on the real package at run time)'],
}

CLASSES = ['EvaluationResult', 'CatalogNumberTestResult', 'CatalogSpatialTestResult', 'CatalogMagnitudeTestResult',
           'CatalogPseudolikelihoodTestResult', 'CalibrationTestResult']
FIELDS = ['test_distribution', 'name', 'observed_statistic', 'quantile', 'status', 'obs_catalog_repr', 'sim_name', 'obs_name', 'min_mw']


# ---- tagged symbolic values -------------------------------------------------------------------------------------------

class NpOther:
    """a value of a numpy type json cannot encode natively (numpy.int64, numpy.bool_): goes through default="""
    json_kind = 'other'

    def __init__(self, tag, term):
        self.tag, self.term = tag, term

    def __str__(self):
        return symio.StrOf(self)


def _xr(name):
    r, n, i = z3.Real(name), z3.Bool(name + '_nan'), z3.Int(name + '_inf')
    core.assume(z3.And(i >= -1, i <= 1))
    return XR(r, nan=n, inf=i)


def mk_scalar(tag, name):
    """tag: pyfloat | npfloat | pyint | npint | none"""
    if tag in ('pyfloat', 'npfloat'):
        return _xr(name)
    if tag == 'pyint':
        return SInt(z3.Int(name))
    if tag == 'npint':
        return NpOther('npint', z3.Int(name))
    if tag == 'none':
        return None
    raise ValueError(tag)


def mk_field(sig, name):
    """sig: scalar tag | ('tuple'|'list'|'ndarray', [element sigs]) | ('str', text)"""
    if isinstance(sig, str):
        return mk_scalar(sig, name)
    kind = sig[0]
    if kind == 'str':
        return sig[1]
    elems = [mk_field(s, '%s_%d' % (name, i)) for i, s in enumerate(sig[1])]
    if kind == 'tuple':
        return tuple(elems)
    if kind == 'list':
        return list(elems)
    if kind == 'ndarray':
        a = np.empty(len(elems), dtype=object)
        for i, e in enumerate(elems):
            a[i] = e
        return symnp.SArr(a, core.DT64)
    raise ValueError(sig)


def same(a, b):
    """z3 formula: loaded value b equals original a (tuples vs lists element-wise, NaN equal to NaN, float types merged)"""
    if isinstance(a, symnp.SArr):
        a = list(a.a.reshape(-1))
    if isinstance(b, symnp.SArr):
        b = list(b.a.reshape(-1))
    if a is None or b is None:
        return z3.BoolVal(a is None and b is None)
    if isinstance(a, (tuple, list)):
        if not isinstance(b, (tuple, list)) or len(a) != len(b):
            return z3.BoolVal(False)
        return z3.And([same(x, y) for x, y in zip(a, b)] + [z3.BoolVal(True)])
    if isinstance(a, str):
        return z3.BoolVal(isinstance(b, str) and not isinstance(b, symio.StrOf) and str(a) == str(b))
    if isinstance(a, NpOther):
        if isinstance(b, NpOther):
            return a.term == b.term
        if isinstance(b, SInt):
            return a.term == b.t
        return z3.BoolVal(False)
    if isinstance(b, (str, NpOther, tuple, list)):
        return z3.BoolVal(False)
    if isinstance(a, SInt) or (isinstance(a, int) and not isinstance(a, bool)):
        at = a.t if isinstance(a, SInt) else z3.IntVal(int(a))
        if isinstance(b, SInt) or (isinstance(b, int) and not isinstance(b, bool)):
            return at == (b.t if isinstance(b, SInt) else z3.IntVal(int(b)))
        rb = core.R(b)
        return z3.And(rb.fin(), rb.v == z3.ToReal(at))
    ra, rb = core.R(a), core.R(b)
    if ra is None or rb is None:
        return z3.BoolVal(False)
    return z3.Or(z3.And(ra.nan, rb.nan),
                 z3.And(z3.Not(ra.nan), z3.Not(rb.nan), ra.inf == rb.inf, z3.Or(ra.inf != 0, ra.v == rb.v)))


# ---- concrete side -----------------------------------------------------------------------------------------------------

def tag_of(v):
    if v is None:
        return 'none'
    if isinstance(v, bool):
        return 'pybool'
    if isinstance(v, str):
        return ('str', '*')
    if isinstance(v, np.floating):
        return 'npfloat'
    if isinstance(v, float):
        return 'pyfloat'
    if isinstance(v, np.integer):
        return 'npint'
    if isinstance(v, int):
        return 'pyint'
    if isinstance(v, np.bool_):
        return 'npbool'
    if isinstance(v, np.ndarray):
        if v.ndim != 1:
            return 'ndarray%dd' % v.ndim
        et = {'f': 'npfloat', 'i': 'npint'}.get(v.dtype.kind, 'other')
        return ('ndarray', [et] * min(len(v), 3))
    if isinstance(v, (tuple, list)):
        return ('tuple' if isinstance(v, tuple) else 'list', [tag_of(x) for x in v[:3]])
    return 'other:' + type(v).__name__


def _norm(sig):
    """hashable form"""
    if isinstance(sig, str):
        return sig
    if sig[0] == 'str':
        return ('str',)
    return (sig[0], tuple(_norm(s) for s in sig[1]))


def _fixture():
    csep = C.real_csep()
    from csep.core import regions, forecasts, catalogs
    origins = np.array([[10.0, 40.0], [10.5, 40.0]])
    reg = regions.CartesianGrid2D.from_origins(origins, dh=0.5, magnitudes=np.array([5.0, 6.0]))

    def cat(evs, name='obs'):
        data = [(str(i), 1262304000000 + i, la, lo, 10.0, m) for i, (lo, la, m) in enumerate(evs)]
        return catalogs.CSEPCatalog(data=data, region=reg, name=name)
    mags = np.array([5.0, 6.0])
    gf = forecasts.GriddedForecast(data=np.array([[0.5, 0.2], [0.3, 0.1]]), region=reg, magnitudes=mags, name='gf')
    gf2 = forecasts.GriddedForecast(data=np.array([[0.4, 0.3], [0.2, 0.2]]), region=reg, magnitudes=mags, name='gf2')
    gz = forecasts.GriddedForecast(data=np.array([[0.5, 0.2], [0.0, 0.0]]), region=reg, magnitudes=mags, name='gz')

    def cf():
        return forecasts.CatalogForecast(catalogs=[cat([(10.1, 40.1, 5.2)], 'c0'), cat([(10.2, 40.1, 6.2), (10.2, 40.3, 5.1)], 'c1'),
                                                   cat([], 'c2')], region=reg, name='cf', n_cat=3)
    obs = {'two': cat([(10.1, 40.1, 5.5), (10.6, 40.2, 6.5)]), 'one': cat([(10.2, 40.2, 5.5)]), 'empty': cat([])}
    return csep, gf, gf2, gz, cf, obs


def produced_results():
    """every public evaluation function of the real package on a small input family -> [(label, result)]"""
    csep, gf, gf2, gz, cf, obs = _fixture()
    from csep.core import poisson_evaluations as pe, binomial_evaluations as be, brier_evaluations as br, catalog_evaluations as ce
    out = []

    import signal

    class _Slow(Exception):
        pass

    def _alarm(*a):
        raise _Slow()

    def add(label, f, *a, **k):
        old = signal.signal(signal.SIGALRM, _alarm)
        signal.alarm(5)
        try:
            with warnings.catch_warnings():
                warnings.simplefilter('ignore')
                import contextlib, io
                with contextlib.redirect_stdout(io.StringIO()):
                    r = f(*a, **k)
        except Exception as e:          # an evaluation that is undefined (or does not terminate: binary simulations
            return                      # asked for more active cells than cells with a positive rate) yields no result
        finally:
            signal.alarm(0)
            signal.signal(signal.SIGALRM, old)
        if r is not None:
            out.append((label, r))
    for on in ('two', 'one', 'empty'):
        o = obs[on]
        for fn_, g in (('gf', gf), ('gz', gz)):
            add('poisson.number_test/%s/%s' % (fn_, on), pe.number_test, g, o)
            for nm in ('likelihood_test', 'conditional_likelihood_test', 'spatial_test', 'magnitude_test'):
                add('poisson.%s/%s/%s' % (nm, fn_, on), getattr(pe, nm), g, o, num_simulations=3, seed=1)
            add('binomial.negative_binomial_number_test/%s/%s' % (fn_, on), be.negative_binomial_number_test, g, o, variance=2.0)
            add('binomial.binary_spatial_test/%s/%s' % (fn_, on), be.binary_spatial_test, g, o, num_simulations=3, seed=1)
            add('binomial.binary_conditional_likelihood_test/%s/%s' % (fn_, on), be.binary_conditional_likelihood_test, g, o, num_simulations=3, seed=1)
            add('brier.brier_score_test/%s/%s' % (fn_, on), br.brier_score_test, g, o, num_simulations=3, seed=1)
        add('poisson.paired_t_test/%s' % on, pe.paired_t_test, gf, gf2, o)
        add('binomial.binary_paired_t_test/%s' % on, be.binary_paired_t_test, gf, gf2, o)
        rs = []
        for nm in ('number_test', 'spatial_test', 'magnitude_test', 'pseudolikelihood_test'):
            n0 = len(out)
            add('catalog.%s/%s' % (nm, on), getattr(ce, nm), cf(), o, verbose=False)
            rs += [r for _, r in out[n0:]]
        for nm in ('resampled_magnitude_test', 'MLL_magnitude_test'):
            add('catalog.%s/%s' % (nm, on), getattr(ce, nm), cf(), o, seed=1)
        if rs:
            add('catalog.calibration_test/%s' % on, ce.calibration_test, rs)
    return out


def signature_of(r):
    return {f: tag_of(getattr(r, f)) for f in FIELDS}


NUMERIC = {'pyfloat', 'npfloat', 'pyint', 'npint', 'none'}


def _numeric_sig(sig):
    if isinstance(sig, str):
        return sig in NUMERIC
    if sig[0] == 'str':
        return True
    return all(_numeric_sig(s) for s in sig[1])


def _conc(spec):
    """{'tag':..., 'v':...} / lists -> python object of that type"""
    if spec is None:
        return None
    if isinstance(spec, str):
        return spec
    if isinstance(spec, dict):
        t, v = spec['tag'], spec.get('v')
        if t in ('tuple', 'list', 'ndarray'):
            el = [_conc(x) for x in v]
            return tuple(el) if t == 'tuple' else (el if t == 'list' else np.array(el, dtype=float))
        if t == 'none':
            return None
        if t in ('pyfloat', 'npfloat'):
            x = float(v)
            return np.float64(x) if t == 'npfloat' else x
        if t == 'pyint':
            return int(v)
        if t == 'npint':
            return np.int64(v)
    raise ValueError(spec)


def _csame(a, b):
    if isinstance(a, np.ndarray):
        a = a.tolist()
    if isinstance(b, np.ndarray):
        b = b.tolist()
    if a is None or b is None:
        return a is None and b is None
    if isinstance(a, (tuple, list)):
        return isinstance(b, (tuple, list)) and len(a) == len(b) and all(_csame(x, y) for x, y in zip(a, b))
    if isinstance(a, str) or isinstance(b, str):
        return isinstance(a, str) and isinstance(b, str) and a == b
    try:
        fa, fb = float(a), float(b)
    except (TypeError, ValueError):
        return False
    return (math.isnan(fa) and math.isnan(fb)) or fa == fb


def replay(cex):
    csep = C.real_csep()
    if cex['kind'] == 'region':
        return _replay_region(cex)
    from csep import models
    cls = getattr(models, cex['cls'])
    fields = {f: _conc(s) for f, s in cex['fields'].items()}
    r = cls(**fields) if cex['cls'] != 'EvaluationResult' else models.EvaluationResult(**fields)
    d = tempfile.mkdtemp(prefix='c18-')
    p = os.path.join(d, 'r.json')
    try:
        try:
            csep.write_json(r, p)
            r2 = csep.load_evaluation_result(p)
        except Exception as e:
            return True, '%s with fields %r: write_json/load_evaluation_result raised %r' % (cex['cls'], cex['fields'], e)
        msgs = []
        if type(r2).__name__ != cex['cls']:
            msgs.append('loaded as %s' % type(r2).__name__)
        for f in FIELDS:
            if not _csame(getattr(r, f), getattr(r2, f)):
                msgs.append('%s: wrote %r, loaded %r' % (f, getattr(r, f), getattr(r2, f)))
        return bool(msgs), '%s: %s' % (cex['cls'], '; '.join(msgs) or 'round trip preserves every field')
    finally:
        import shutil
        shutil.rmtree(d, ignore_errors=True)


def _replay_region(cex):
    C.real_csep()
    from csep.core import regions
    from csep import models
    lat = cex['lat']
    reg = C.build_region(regions, models, lat)
    reg2 = regions.CartesianGrid2D.from_dict(rjson.loads(rjson.dumps(reg.to_dict())))

    def look(r):
        try:
            return int(r.get_index_of(np.array([cex['lon']]), np.array([cex['lat_v']]))[0])
        except ValueError:
            return None
    a, b = look(reg), look(reg2)
    return a != b, 'point (%r, %r): original region -> %r, rebuilt from its dictionary -> %r' % (cex['lon'], cex['lat_v'], a, b)


# ---- jobs -----------------------------------------------------------------------------------------------------------------

SCALARS = ['npfloat', 'pyfloat', 'pyint', 'npint', 'none']
BASE = {
    'test_distribution': ('list', ['npfloat', 'npfloat']),
    'name': ('str', 'T-name'),
    'observed_statistic': 'npfloat',
    'quantile': ('tuple', ['npfloat', 'npfloat']),
    'status': ('str', 'normal'),
    'obs_catalog_repr': ('str', 'repr of the catalog'),
    'sim_name': ('str', 'forecast'),
    'obs_name': ('str', 'observation'),
    'min_mw': 'npfloat',
}
VARIANTS = {
    'test_distribution': [('list', []), ('list', ['npfloat']), ('list', ['npfloat'] * 3), ('list', ['pyint', 'pyint']),
                          ('ndarray', ['npfloat', 'npfloat']), ('ndarray', []), ('tuple', ['npfloat', 'npfloat']),
                          ('tuple', [('str', 'poisson'), 'npfloat']), ('list', ['npint', 'npint'])],
    'observed_statistic': SCALARS,
    'quantile': ['npfloat', 'pyfloat', ('tuple', ['pyint', 'pyint']), ('tuple', ['none', 'none']), ('tuple', ['pyfloat', 'npfloat']), 'none'],
    'status': [('str', 'not-valid'), ('str', 'undersampled'), ('str', '')],
    'sim_name': [('tuple', [('str', 'A'), ('str', 'B')]), 'none'],
    'obs_name': ['none'],
    'min_mw': ['pyfloat', 'pyint', 'none', 'npint'],
    'name': [],
    'obs_catalog_repr': [],
}


def _fill(sig, real_value=None):
    """replace ('str','*') placeholders by concrete text"""
    if isinstance(sig, str):
        return sig
    if sig[0] == 'str':
        return ('str', real_value if isinstance(real_value, str) else 'text')
    vals = list(real_value) if isinstance(real_value, (tuple, list)) else [None] * len(sig[1])
    return (sig[0], [_fill(s, vals[i] if i < len(vals) else None) for i, s in enumerate(sig[1])])


def jobs(tier, seed):
    out = []
    for cls in CLASSES:
        out.append({'name': 'result %s' % cls, 'kind': 'result', 'cls': cls, 'tier': tier, 'cost': 30})
    out.append({'name': 'json stub conformance', 'kind': 'jsonconf', 'cost': 1})
    fam = [l for l in C.lattice_family(tier, seed) if l['flags'] is None]
    if tier == 'thorough':
        fam = fam[::3]          # every third lattice of the thorough family (~170 region jobs): the full family did not finish in 2.5 h on 4 workers
    # a lattice whose origins need seven decimals (spacing 1/128): a dictionary form that rounds coordinates shows here
    fam.append(C.lattice('2x2 dh=1/128', 2, 2, 0.0078125, (-116.9921875, 34.0234375)))
    for lat in fam:
        out.append({'name': 'region %s' % lat['name'], 'kind': 'region', 'lat': lat, 'tier': tier, 'cost': 20})
    for j in out:
        j['wall'] = 900 if tier == 'quick' else 3000
    return out


def run_job(job):
    snap = C.stats_snapshot()
    core.MODE['float'] = 'fp' if job['kind'] == 'region' else 'xr'
    res = globals()['_job_' + job['kind']](job)
    res.update(C.stats_delta(snap))
    return res


def _setup():
    vfs = symio.VFS()
    L = C.twin(models={'json': symio.JsonModel(vfs), 'os': symio.OsModel(vfs)}, extra_builtins={'open': vfs.open})
    return L, vfs


def _model_spec(mod, sig, val):
    """concrete spec of a symbolic field under a model"""
    if isinstance(sig, str):
        if sig == 'none':
            return {'tag': 'none'}
        if sig in ('pyfloat', 'npfloat'):
            if core.bool_from_model(mod, val.nan):
                return {'tag': sig, 'v': 'nan'}
            i = core.int_from_model(mod, val.inf)
            if i:
                return {'tag': sig, 'v': 'inf' if i > 0 else '-inf'}
            return {'tag': sig, 'v': float(core.real_from_model(mod, val.v))}
        if sig == 'pyint':
            return {'tag': sig, 'v': core.int_from_model(mod, val.t)}
        if sig == 'npint':
            return {'tag': sig, 'v': core.int_from_model(mod, val.term)}
    if sig[0] == 'str':
        return sig[1]
    vals = list(val.a.reshape(-1)) if isinstance(val, symnp.SArr) else list(val)
    return {'tag': sig[0], 'v': [_model_spec(mod, s, v) for s, v in zip(sig[1], vals)]}


def _job_result(job):
    cls_name, tier = job['cls'], job['tier']
    L, vfs = _setup()
    csep = L.load('csep')
    models = L.load('csep.models')
    cls = getattr(models, cls_name)
    # signatures the real evaluation functions produce for this class
    produced = {}
    for label, r in produced_results():
        if type(r).__name__ != cls_name:
            continue
        sig = {f: _fill(tag_of(getattr(r, f)), getattr(r, f)) for f in FIELDS}
        key = tuple(sorted((f, _norm(s)) for f, s in sig.items()))
        produced.setdefault(key, (label, sig))
    sigs = []
    for key, (label, sig) in sorted(produced.items(), key=lambda kv: kv[1][0]):
        if all(_numeric_sig(sig[f]) for f in FIELDS):
            sigs.append(('produced by %s' % label, sig, True))
        else:
            sigs.append(('produced by %s (non-numeric field: outside the claim)' % label, sig, False))
    # single-field variations (full product in the thorough tier for the three value-carrying fields)
    for f, vs in VARIANTS.items():
        for v in vs:
            s = dict(BASE)
            s[f] = v
            sigs.append(('variation %s=%r' % (f, _norm(v)), s, None))
    if tier == 'thorough':
        for a in VARIANTS['observed_statistic']:
            for b in VARIANTS['quantile']:
                for c in VARIANTS['test_distribution']:
                    for d in VARIANTS['min_mw']:
                        s = dict(BASE)
                        s.update(observed_statistic=a, quantile=b, test_distribution=c, min_mw=d)
                        sigs.append(('product', s, None))
    producible = {tuple(sorted((f, _norm(s)) for f, s in sig.items())) for _, sig, ok in sigs if ok}
    obs, n_sig, unsafe, tsum = [], 0, [], 0.0
    witness = None
    for label, sig, counts in sigs:
        key = tuple(sorted((f, _norm(s)) for f, s in sig.items()))
        if counts is False:
            continue
        n_sig += 1
        holder = {}

        def run():
            fields = {f: mk_field(sig[f], f[:3] + f[-2:]) for f in FIELDS}
            holder['fields'] = fields
            core.CTX.notes['fields'] = fields
            r = cls(**fields)
            csep.write_json(r, '/virtual/result.json')
            return csep.load_evaluation_result('/virtual/result.json')
        paths, _ = core.explore(run, max_paths=50)

        def cexf(mod, fields):
            return {'kind': 'result', 'cls': cls_name, 'fields': {f: _model_spec(mod, sig[f], fields[f]) for f in FIELDS}}
        for P in paths:
            fields = P.notes.get('fields') or holder['fields']
            if P.kind == 'exc':
                q = [z3.BoolVal(True)]
                what = 'raises %s: %s' % (P.exc_name(), P.exc)
            else:
                r2 = P.value
                bad = [z3.BoolVal(type(r2).__name__ != cls_name)]
                for f in FIELDS:
                    bad.append(z3.Not(same(fields[f], getattr(r2, f))))
                q = [z3.Or(bad)]
                what = 'some field differs'
            st, mod, t = C.solve(q, 60, P.pc)
            tsum += t
            if st == 'unsat':
                if witness is None and P.kind == 'ok' and key in producible:
                    witness = (P, sig, fields)
                continue
            cex = cexf(mod, fields) if st == 'sat' else None
            o = Obligation('%s [%s]: %s' % (cls_name, label, what), st, t, cex)
            o = C._replayed(o, replay)
            if st == 'sat' and key not in producible:
                # a type signature no evaluation function produces: recorded, not a violation of the property
                unsafe.append('%s: %s' % (label, (o.detail or '')[:160]))
                continue
            obs.append(o)
    obs.append(Obligation('%s: %d type signatures (%d produced by real evaluation functions) round-trip for all values'
                          % (cls_name, n_sig, len(producible)), 'unsat' if not any(o.status != 'unsat' for o in obs) else 'unknown', tsum,
                          note='signatures that do not survive but are produced by no evaluation function: %d' % len(unsafe)))
    if obs[-1].status == 'unknown' and all(o.status == 'sat' for o in obs[:-1]):
        obs.pop()           # only genuine violations: they speak for themselves
    if witness is not None:
        P, sig, fields = witness

        def chk(mod):
            bad, d = replay({'kind': 'result', 'cls': cls_name, 'fields': {f: _model_spec(mod, sig[f], fields[f]) for f in FIELDS}})
            return (not bad), d
        obs.append(C.reach_obligation(P, chk))
    else:
        # classes no evaluation function produced on the family still need a witness through the BASE signature
        o = Obligation('reachability witness', 'unsat', kind='reach')
        o.detail = 'no producible signature for %s' % cls_name
        if not producible:
            bad, d = replay({'kind': 'result', 'cls': cls_name, 'fields': {f: _default_spec(BASE[f]) for f in FIELDS}})
            o.status, o.reproduced, o.detail = 'sat', (not bad), d
        obs.append(o)
    return {'obligations': [o.as_dict() for o in obs],
            'samples': [{'class': cls_name, 'signatures': n_sig, 'produced': [l for l, s, ok in sigs if ok][:6],
                         'not surviving but never produced': unsafe[:6]}]}


def _default_spec(sig):
    if isinstance(sig, str):
        return {'tag': sig, 'v': 1.5} if sig in ('pyfloat', 'npfloat') else ({'tag': sig, 'v': 2} if sig != 'none' else {'tag': 'none'})
    if sig[0] == 'str':
        return sig[1]
    return {'tag': sig[0], 'v': [_default_spec(s) for s in sig[1]]}


def _job_jsonconf(job):
    """the JsonModel type rules against the real json module on concrete values of every tag"""
    vfs = symio.VFS()
    jm = symio.JsonModel(vfs)
    vals = [None, True, 'x', 1, -3, 1.5, float('nan'), float('inf'), -float('inf'), np.float64(2.5), np.float64('nan'),
            np.float32(1.5), np.int64(7), np.int32(3), np.bool_(True), (1, 2.0), [np.float64(1.0), None], np.array([1.0, 2.0]),
            {'a': (1, 2), 'b': {'c': np.int64(1)}, 3: 'k'}, ('poisson', np.float64(0.5))]
    bad = []
    for v in vals:
        try:
            want = rjson.loads(rjson.dumps(v, default=str))
        except Exception as e:
            want = ('raises', type(e).__name__)
        try:
            enc = jm._enc(v, str)
            got = jm._dec(enc)
            got = rjson.loads(rjson.dumps(got))          # normalise StrOf / types through the real module
        except Exception as e:
            got = ('raises', type(e).__name__)
        ok = _csame_typed(want, got)
        if not ok:
            bad.append('%r: real %r model %r' % (v, want, got))
        try:
            rjson.dumps(v)
            want2 = 'ok'
        except TypeError:
            want2 = 'TypeError'
        try:
            jm._enc(v, None)
            got2 = 'ok'
        except TypeError:
            got2 = 'TypeError'
        if want2 != got2:
            bad.append('%r without default: real %s model %s' % (v, want2, got2))
    o = Obligation('json stub follows the real encoder type rules on %d values' % len(vals), 'unsat' if not bad else 'sat', kind='twin')
    o.detail = '; '.join(bad)
    return {'obligations': [o.as_dict()], 'samples': [{'values': len(vals)}]}


def _csame_typed(a, b):
    if type(a) != type(b):
        return False
    if isinstance(a, list):
        return len(a) == len(b) and all(_csame_typed(x, y) for x, y in zip(a, b))
    if isinstance(a, dict):
        return set(a) == set(b) and all(_csame_typed(a[k], b[k]) for k in a)
    if isinstance(a, float):
        return (math.isnan(a) and math.isnan(b)) or a == b
    return a == b


def _job_region(job):
    lat = job['lat']
    L = C.twin()
    regions = L.load('csep.core.regions')
    models = L.load('csep.models')
    reg = C.build_region(regions, models, lat, np_mod=symnp)
    d = reg.to_dict()
    d2 = rjson.loads(rjson.dumps(d))                    # concrete in, real library out
    reg2 = regions.CartesianGrid2D.from_dict(d2)
    lon, la = z3.FP('lon', F64), z3.FP('lat', F64)
    TO = 150 if job['tier'] == 'quick' else 900
    pre = []
    arrays_equal = all(np.array_equal(np.asarray(getattr(reg, a)), np.asarray(getattr(reg2, a))) for a in ('xs', 'ys'))
    if not arrays_equal:
        # the rebuilt region has different edge arrays: ask for a separating coordinate one axis at a time (one symbolic
        # double, two 1-D kernels) before the 2-D query; the other coordinate is put on a cell midpoint
        calc = L.load('csep.utils.calc')
        for axis, e1, e2, other in (('lon', reg.xs, reg2.xs, reg.ys), ('lat', reg.ys, reg2.ys, reg.xs)):
            v = z3.FP('v_' + axis, F64)
            if len(symnp.asarray(e1)) != len(symnp.asarray(e2)):
                continue

            def run1():
                core.assume(C.fin(v))
                pt = symnp.asarray([SFP(v)])
                return calc.bin1d_vec(pt, e1).a.reshape(-1)[0], calc.bin1d_vec(pt, e2).a.reshape(-1)[0]
            p1, _ = core.explore(run1, max_paths=50)
            for P in p1:
                if P.kind != 'ok':
                    continue
                a_, b_ = P.value
                ta = a_.t if isinstance(a_, SBV) else z3.BitVecVal(int(a_), 64)
                tb = b_.t if isinstance(b_, SBV) else z3.BitVecVal(int(b_), 64)
                st, mod, t = C.solve([ta != tb], TO, P.pc)
                if st == 'sat':
                    x = core.fp_from_model(mod, v)
                    mids = [float(m) + lat['dh'] / 2 for m in np.asarray(symnp.unwrap(symnp.asarray(other))).reshape(-1)]
                    for m in mids:
                        cex = {'kind': 'region', 'lat': lat, 'lon': x if axis == 'lon' else m, 'lat_v': m if axis == 'lon' else x}
                        o = C._replayed(Obligation('%s axis: same bin from both edge arrays' % axis, st, t, cex), replay)
                        if o.reproduced:
                            pre.append(o)
                            break
                    if pre:
                        break
            if pre:
                break
    if pre:
        return {'obligations': [o.as_dict() for o in pre],
                'samples': [{'lattice': lat['name'], 'note': 'rebuilt region has different edge arrays; separating point found on one axis'}]}

    def look(r, lons, lats):
        try:
            return r.get_index_of(lons, lats).a.reshape(-1)[0]
        except ValueError:
            return None

    def run():
        core.assume(C.fin(lon))
        core.assume(C.fin(la))
        lons, lats = symnp.asarray([SFP(lon)]), symnp.asarray([SFP(la)])
        return look(reg, lons, lats), look(reg2, lons, lats)
    paths, trunc = core.explore(run, max_paths=400)
    obs = []

    def bv(e):
        return e.t if isinstance(e, SBV) else z3.BitVecVal(int(e), 64)

    def cexf(mod):
        return {'kind': 'region', 'lat': lat, 'lon': core.fp_from_model(mod, lon), 'lat_v': core.fp_from_model(mod, la)}
    tsum, unknown, reach = 0.0, 0, None
    for k, P in enumerate(paths):
        if P.kind == 'exc':
            st, mod, t = C.solve([], TO, P.pc)
            obs.append(C._replayed(Obligation('no unexpected exception (%s: %s)' % (P.exc_name(), P.exc), st, t,
                                              cexf(mod) if st == 'sat' else None), replay))
            continue
        a, b = P.value
        if (a is None) != (b is None):
            q = [z3.BoolVal(True)]
        elif a is None:
            continue
        else:
            q = [bv(a) != bv(b)]
            reach = reach or (P, a)
        st, mod, t = C.solve(q, TO, P.pc)
        tsum += t
        if st == 'sat':
            obs.append(C._replayed(Obligation('same outcome from both regions, path %d' % k, st, t, cexf(mod)), replay))
        elif st != 'unsat':
            unknown += 1
    same_arrays = (np.array_equal(np.asarray(reg.xs), np.asarray(reg2.xs)) and np.array_equal(np.asarray(reg.ys), np.asarray(reg2.ys)))
    obs.append(Obligation('original and rebuilt region give the same index or both raise, every finite (lon, lat); %d paths' % len(paths),
                          'unknown' if (unknown or trunc) else 'unsat', tsum, note='edge arrays identical: %s' % same_arrays))
    if reach is not None:
        P, a = reach

        def chk(mod):
            x, y = core.fp_from_model(mod, lon), core.fp_from_model(mod, la)
            C.real_csep()
            from csep.core import regions as rr
            from csep import models as rm
            real = C.build_region(rr, rm, lat)
            got = int(real.get_index_of(np.array([x]), np.array([y]))[0])
            want = core.int_from_model(mod, bv(a))
            return got == want, 'point (%r, %r): symbolic %r real %r' % (x, y, want, got)
        obs.append(C.reach_obligation(P, chk))
    else:
        obs.append(Obligation('reachability witness', 'unsat', kind='reach'))
    return {'obligations': [o.as_dict() for o in obs],
            'samples': [{'lattice': lat['name'], 'cells': len(lat['origins']), 'point': 'symbolic (lon, lat)', 'paths': len(paths)}]}
