"""C17 -- quadtree grids tile the globe and locate points in their containing tile (DESIGN 4/C17)."""
import itertools
import math

import numpy as np
import z3

from symx import core, symnp
from symx.core import XR, SInt
from symx.harness import Obligation
from . import common as C

ID = 'C17'
KNOWN_KEYS = {}
META = {
    'functions': ['csep/core/regions.py _create_tile', 'csep/core/regions.py _create_tile_fix_len', 'csep/core/regions.py quadtree_grid_bounds',
                  'csep/core/regions.py QuadtreeGrid2D.from_single_resolution / from_catalog / from_quadkeys',
                  'csep/core/regions.py QuadtreeGrid2D.get_index_of / _find_location / get_cell_area',
                  'csep/core/regions.py geographical_area_from_bounds'],
    'theory': 'linear real arithmetic (only comparisons touch the coordinates, so real and float semantics coincide); tile bounds '
              'concrete (real mercantile); cell areas with an uninterpreted cosine (congruence + arithmetic)',
    'bounds': {'quick': 'single resolution zoom 1..4; refinement from 2 events with threshold 0..1 and maximum zoom <= 2; '
                        'prefix-free quadkey sets: 3 seeded sets and a slice of the shipped California grid; area additivity as '
                        'one inductive step over arbitrary tile bounds',
               'thorough': 'zoom 1..6; 3 events, threshold 0..2'},
    'outside': ['zoom > 6 (4^7 cells)', 'more than 3 events in the refinement', 'numerical accuracy of numpy.cos'],
    'stubs': ['numpy.cos: uninterpreted', 'mercantile: the real pure-Python library on concrete quadkeys'],
    'assumptions': [],
}
LATMAX = 85.0511287798066


def _merc_bounds(qk):
    import mercantile
    b = mercantile.bounds(mercantile.quadkey_to_tile(qk))
    return (b.west, b.south, b.east, b.north)


def _contains(b, lon, la):
    return z3.And(lon >= core._rv(b[0]), la >= core._rv(b[1]), lon < core._rv(b[2]), la < core._rv(b[3]))


def replay(cex):
    C.real_csep()
    from csep.core import regions
    from csep.core.catalogs import CSEPCatalog
    k = cex['kind']
    if k == 'lookup':
        reg = regions.QuadtreeGrid2D.from_quadkeys(cex['quadkeys']) if cex.get('quadkeys') else regions.QuadtreeGrid2D.from_single_resolution(cex['zoom'])
        lon, la = cex['lon'], cex['lat']
        got = reg.get_index_of([lon], [la])
        got = [int(x) for x in np.atleast_1d(got)]
        keys = list(reg.quadkeys)
        want = [i for i, q in enumerate(keys) if (lambda b: b[0] <= lon < b[2] and b[1] <= la < b[3])(_merc_bounds(q))]
        in_dom = -180 <= lon < 180 and -LATMAX < la < LATMAX
        msgs = []
        if cex.get('zoom') and in_dom and len(want) != 1:
            msgs.append('point (%r, %r) lies in %d cells of the single-resolution grid' % (lon, la, len(want)))
        if len(want) > 1:
            msgs.append('cells overlap at (%r, %r): %r' % (lon, la, want))
        if got != want[:1]:
            msgs.append('get_index_of(%r, %r) = %r, containing cell %r' % (lon, la, got, want))
        return bool(msgs), '; '.join(msgs) or 'lookup agrees'
    if k == 'refine':
        pts = cex['points']
        data = [('e%d' % i, 0, p[1], p[0], 5.0, 5.0) for i, p in enumerate(pts)]
        cat = CSEPCatalog(data=data)
        reg = regions.QuadtreeGrid2D.from_catalog(cat, cex['threshold'], zoom=cex['zoom'])
        keys = [str(q) for q in reg.quadkeys]
        msgs = _refine_msgs(keys, pts, cex['threshold'], cex['zoom'])
        return bool(msgs), ('events %r threshold %d zoom %d -> %r: ' % (pts, cex['threshold'], cex['zoom'], keys)) + ('; '.join(msgs) or 'refinement ok')
    if k == 'area':
        w, s, e, n, mx, my = [cex[x] for x in ('w', 's', 'e', 'n', 'mx', 'my')]
        A = regions.geographical_area_from_bounds
        whole = A(w, s, e, n)
        parts = A(w, s, mx, my) + A(mx, s, e, my) + A(w, my, mx, n) + A(mx, my, e, n)
        bad = abs(whole - parts) > 1e-6 * max(1.0, abs(whole))
        return bad, 'area(%r) = %r, sum of the four children %r' % ((w, s, e, n), whole, parts)
    raise ValueError(k)


def _count(q, pts):
    b = _merc_bounds(q)
    return sum(1 for (lo, la) in pts if b[0] <= lo < b[2] and b[1] <= la < b[3])


def _refine_msgs(keys, pts, thr, zoom):
    msgs = []
    if abs(sum(4.0 ** -len(q) for q in keys) - 1.0) > 1e-12 or any(a != b and b.startswith(a) for a in keys for b in keys):
        msgs.append('leaves are not a complete prefix-free set')
    for q in keys:
        if len(q) < zoom and _count(q, pts) > thr:
            msgs.append('leaf %s holds %d events > threshold %d below the maximum zoom' % (q, _count(q, pts), thr))
    internal = {q[:i] for q in keys for i in range(1, len(q))}
    for q in internal:
        if _count(q, pts) <= thr:
            msgs.append('cell %s with %d events <= threshold %d was split' % (q, _count(q, pts), thr))
    return msgs


def jobs(tier, seed):
    out = []
    for z in range(1, (4 if tier == 'quick' else 6) + 1):
        out.append({'name': 'single resolution zoom %d' % z, 'kind': 'single', 'zoom': z, 'cost': 4 ** z})
    rng = np.random.RandomState(77 + seed)
    for s in range(3 if tier == 'quick' else 8):
        out.append({'name': 'prefix-free set %d' % s, 'kind': 'keys', 'keys': _random_prefix_free(rng, 16), 'cost': 20})
    out.append({'name': 'california grid slice', 'kind': 'keys', 'keys': 'california', 'cost': 60})
    for thr in ((0, 1) if tier == 'quick' else (0, 1, 2)):
        for zoom in (1, 2):
            out.append({'name': 'refinement N=2 threshold=%d zoom=%d' % (thr, zoom), 'kind': 'refine', 'N': 2, 'thr': thr, 'zoom': zoom, 'cost': 30})
    if tier == 'thorough':
        out.append({'name': 'refinement N=3 threshold=1 zoom=2', 'kind': 'refine', 'N': 3, 'thr': 1, 'zoom': 2, 'cost': 200})
    out.append({'name': 'area additivity (inductive step)', 'kind': 'area', 'cost': 5})
    out.append({'name': 'area of the zoom-1 grid equals the latitude band', 'kind': 'arearoot', 'cost': 1})
    for j in out:
        j['tier'] = tier
        j['wall'] = 900 if tier == 'quick' else 3400
    return out


def _random_prefix_free(rng, n):
    keys = ['0', '1', '2', '3']
    while len(keys) < n:
        i = int(rng.randint(0, len(keys)))
        q = keys.pop(i)
        if len(q) >= 5:
            keys.append(q)
            continue
        keys += [q + c for c in '0123']
    # drop a few to make it incomplete (holes)
    drop = set(int(x) for x in rng.choice(len(keys), size=3, replace=False))
    return [q for i, q in enumerate(keys) if i not in drop]


def run_job(job):
    snap = C.stats_snapshot()
    core.MODE['float'] = 'xr'
    core.OPT['lazy_bounds'] = True
    res = globals()['_job_' + job['kind']](job)
    res.update(C.stats_delta(snap))
    return res


def _lookup(job, reg, keys, tiling):
    lon, la = z3.Real('lon'), z3.Real('lat')
    bounds = [_merc_bounds(q) for q in keys]

    def run():
        core.assume(z3.And(lon >= -200, lon <= 200, la >= -95, la <= 95))
        r = reg.get_index_of(symnp.asarray([XR(lon)]), symnp.asarray([XR(la)]))
        return r
    paths, trunc = core.explore(run, max_paths=200)
    inn = [_contains(b, lon, la) for b in bounds]
    cnt = z3.Sum([z3.If(c, 1, 0) for c in inn])

    def cexf(mod, P):
        c = {'kind': 'lookup', 'lon': float(core.real_from_model(mod, lon)), 'lat': float(core.real_from_model(mod, la))}
        if tiling:
            c['zoom'] = job['zoom']
        else:
            c['quadkeys'] = keys
        return c
    obs = []
    # disjointness (and coverage for single-resolution grids): a claim about the cell set alone
    st, mod, t = C.solve([cnt > 1], 200)
    o = Obligation('cells pairwise disjoint', st, t, cexf(mod, None) if st == 'sat' else None)
    obs.append(C._replayed(o, replay))
    if tiling:
        dom = z3.And(lon >= -180, lon < 180, la > core._rv(-LATMAX), la < core._rv(LATMAX))
        st, mod, t = C.solve([dom, cnt != 1], 200)
        o = Obligation('every point of [-180,180) x (-85.05.., 85.05..) lies in exactly one cell', st, t, cexf(mod, None) if st == 'sat' else None)
        obs.append(C._replayed(o, replay))

    def vio(P):
        r = P.value
        ra = symnp.asarray(r)
        n = len(ra)
        if n == 0:
            return [('no cell reported only if none contains the point', cnt > 0)]
        e = ra.a.reshape(-1)[0]
        et = e.t if isinstance(e, SInt) else z3.IntVal(int(e))
        return [('reported cell is the cell containing the point (west/south inclusive)',
                 z3.Or(z3.BoolVal(n != 1), z3.Not(z3.Or([z3.And(c, et == i) for i, c in enumerate(inn)]))))]
    obs += C.path_obligations(paths, vio, cexf, replay, 'lookup', 120)
    for i, P in enumerate(paths):
        for (cond, what, npc) in P.notes.get('asserts', []):
            st, mod, t = C.solve([z3.Not(cond)], 60, P.pc[:npc])
            o = Obligation('%s cannot happen, path %d' % (what, i), st, t, cexf(mod, P) if st == 'sat' else None)
            obs.append(C._replayed(o, replay))
    okp = [P for P in paths if P.kind == 'ok']
    if okp:
        def chk(mod):
            bad, d = replay(cexf(mod, okp[0]))
            return (not bad), d
        obs.append(C.reach_obligation(okp[0], chk))
    return obs, len(paths)


def _job_single(job):
    L = C.twin()
    regions = L.load('csep.core.regions')
    z = job['zoom']
    reg = regions.QuadtreeGrid2D.from_single_resolution(z)
    keys = [''.join(p) for p in itertools.product('0123', repeat=z)]
    got = [str(q) for q in symnp.unwrap(reg.quadkeys)]
    obs = []
    o = Obligation('from_single_resolution(%d) yields the 4^%d keys of length %d' % (z, z, z), 'unsat' if sorted(got) == sorted(keys) else 'sat', kind='twin')
    o.detail = '%d keys' % len(got)
    obs.append(o)
    rb = symnp.unwrap(reg.bounds)
    same = all(tuple(float(x) for x in rb[i]) == _merc_bounds(q) for i, q in enumerate(got))
    o2 = Obligation('region.bounds equal the Web-Mercator tile bounds', 'unsat' if same else 'sat', kind='twin')
    obs.append(o2)
    more, npaths = _lookup(job, reg, got, True)
    return {'obligations': [o.as_dict() for o in obs + more], 'samples': [{'zoom': z, 'cells': len(got), 'point': 'symbolic (lon, lat)', 'paths': npaths}]}


def _job_keys(job):
    L = C.twin()
    regions = L.load('csep.core.regions')
    keys = job['keys']
    if keys == 'california':
        reg0 = regions.california_quadtree_region()
        allk = [str(q) for q in symnp.unwrap(reg0.quadkeys)]
        keys = allk[:200]
    reg = regions.QuadtreeGrid2D.from_quadkeys(list(keys))
    more, npaths = _lookup(job, reg, list(keys), False)
    return {'obligations': [o.as_dict() for o in more], 'samples': [{'quadkeys': list(keys)[:6] + ['...'], 'cells': len(keys), 'paths': npaths}]}


def _job_refine(job):
    L = C.twin()
    regions = L.load('csep.core.regions')
    N, thr, zoom = job['N'], job['thr'], job['zoom']
    lons = [z3.Real('lon%d' % i) for i in range(N)]
    lats = [z3.Real('lat%d' % i) for i in range(N)]

    class Cat:
        def get_longitudes(self): return symnp.asarray([XR(x) for x in lons])
        def get_latitudes(self): return symnp.asarray([XR(x) for x in lats])

    def run():
        for lo, la in zip(lons, lats):
            core.assume(z3.And(lo >= -180, lo < 180, la > core._rv(-LATMAX), la < core._rv(LATMAX)))
        reg = regions.QuadtreeGrid2D.from_catalog(Cat(), thr, zoom=zoom)
        return [str(q) for q in symnp.unwrap(reg.quadkeys)]
    paths, trunc = core.explore(run, max_paths=20000)

    def cexf(mod, P):
        return {'kind': 'refine', 'threshold': thr, 'zoom': zoom,
                'points': [(float(core.real_from_model(mod, lo)), float(core.real_from_model(mod, la))) for lo, la in zip(lons, lats)]}

    def cnt(q):
        b = _merc_bounds(q)
        return z3.Sum([z3.If(_contains(b, lo, la), 1, 0) for lo, la in zip(lons, lats)])

    def vio(P):
        keys = P.value
        bad = []
        if abs(sum(4.0 ** -len(q) for q in keys) - 1.0) > 1e-12 or any(a != b and b.startswith(a) for a in keys for b in keys):
            bad.append(z3.BoolVal(True))
        for q in keys:
            if len(q) < zoom:
                bad.append(cnt(q) > thr)
            if len(q) > zoom:
                bad.append(z3.BoolVal(True))
        for q in {q[:i] for q in keys for i in range(1, len(q))}:
            bad.append(cnt(q) <= thr)
        return z3.Or(bad) if bad else z3.BoolVal(False)
    obs = C.path_obligations(paths, vio, cexf, replay, 'leaves complete and prefix-free; split iff count > threshold below the maximum zoom', 60)
    from .C16 import _aggregate
    obs = _aggregate(obs, paths, trunc)
    okp = [P for P in paths if P.kind == 'ok']
    if okp:
        def chk(mod):
            bad, d = replay(cexf(mod, okp[-1]))
            return (not bad), d
        obs.append(C.reach_obligation(okp[-1], chk))
    return {'obligations': [o.as_dict() for o in obs], 'samples': [{'events': N, 'threshold': thr, 'max zoom': zoom, 'paths': len(paths)}]}


def _job_area(job):
    """for ARBITRARY tile bounds w < mx < e, s < my < n: area(w,s,e,n) = sum of the four children (one inductive step
    covers every refinement depth)"""
    L = C.twin()
    regions = L.load('csep.core.regions')
    core.OPT['symbolic_transc'] = True
    w, s, e, n, mx, my = [z3.Real(x) for x in ('w', 's', 'e', 'n', 'mx', 'my')]

    def run():
        core.assume(z3.And(w >= -180, e <= 180, w < mx, mx < e, s >= -90, n <= 90, s < my, my < n))
        A = regions.geographical_area_from_bounds
        whole = A(XR(w), XR(s), XR(e), XR(n))
        parts = [A(XR(w), XR(s), XR(mx), XR(my)), A(XR(mx), XR(s), XR(e), XR(my)), A(XR(w), XR(my), XR(mx), XR(n)), A(XR(mx), XR(my), XR(e), XR(n))]
        return whole, parts
    paths, trunc = core.explore(run, max_paths=200)

    def cexf(mod, P):
        f = lambda t: float(core.real_from_model(mod, t))
        return {'kind': 'area', 'w': f(w), 's': f(s), 'e': f(e), 'n': f(n), 'mx': f(mx), 'my': f(my)}

    def vio(P):
        whole, parts = P.value
        tot = core.R(parts[0]) + core.R(parts[1]) + core.R(parts[2]) + core.R(parts[3])
        return core.R(whole).v != tot.v
    obs = C.path_obligations(paths, vio, cexf, replay, 'area of a tile = sum of the areas of its four children', 120, candidate_only=True)
    return {'obligations': [o.as_dict() for o in obs], 'samples': [{'tile': 'symbolic bounds and split point', 'paths': len(paths)}]}


def _job_arearoot(job):
    C.real_csep()
    from csep.core import regions
    reg = regions.QuadtreeGrid2D.from_single_resolution(1)
    tot = float(np.sum(reg.get_cell_area()))
    band = 2 * math.pi * 6371.0 ** 2 * (math.sin(math.radians(LATMAX)) - math.sin(math.radians(-LATMAX)))
    ok = abs(tot - band) <= 1e-6 * band
    o = Obligation('areas of the four zoom-1 cells add up to the area of the covered latitude band', 'unsat' if ok else 'sat', kind='twin')
    o.detail = 'sum %r band %r' % (tot, band)
    return {'obligations': [o.as_dict()], 'samples': [{'root identity': [tot, band]}]}
