"""C02 -- 1-D binning: lower-inclusive, upper-exclusive, open at the top (DESIGN 4/C02)."""
import math
from fractions import Fraction

import numpy as np
import z3

from symx import core, symnp
from symx.core import SFP, SBV, F64, F32, DT64, DT32, fpconst
from symx.harness import Obligation
from . import common as C
from .common import frac, tau, EPS64, EPS32

ID = 'C02'
KNOWN_KEYS = {
    'first-edge-smaller-than-step': 'bin1d_vec: grids with |first edge| < step can place an edge value one bin low',
}
META = {
    'functions': ['csep/utils/calc.py bin1d_vec', 'csep/utils/calc.py _get_tolerance', 'csep/utils/calc.py discretize',
                  'csep/utils/calc.py cleaner_range', 'csep/core/regions.py magnitude_bins'],
    'theory': 'QF_BVFP: bit-exact IEEE-754 float64/float32 (RNE) over the real bin1d_vec bytecode; '
              'int64 as 64-bit bit-vectors',
    'bounds': {
        'quick': 'grid family (7 concrete edge arrays) x {closed, open} x {float64 array, float64 scalar, float32, int64}; '
                 'v = every finite value of the dtype (int64: |v| <= 1e9); monotonicity over two symbolic values; '
                 'generator: cleaner_range(A/10^m, (A+K*B)/10^m, B/10^m), A,B symbolic integers |A|<=1e4, 1<=B<=100, m in {1,2}, K<=12',
        'thorough': 'adds seeded decimal grids, zero-crossing decimal grids, larger K, shipped region edge arrays',
    },
    'outside': ['non-equally-spaced or unsorted edges (documented precondition)', 'NaN / infinite values',
                'behaviour inside the round-off band (either adjacent bin accepted)', 'edge arrays not in the family'],
    'stubs': ['str(float(x)) of a decimal start value: fractional part has max(1, m - trailing_zeros(A)) digits '
              '(shortest round-trip repr contract, validated against real repr on each run)'],
    'assumptions': ['edges increasing and equally spaced', 'values finite'],
}


# ---- exact oracle (used by replay; the same clauses are what the queries negate) -------------------

def band(k, edges, dt):
    t = tau(k, edges[min(k, len(edges) - 1)] if k < len(edges) else top_edge(edges), edges[0])
    if dt == 'f4':
        t = t + 4 * EPS32 * abs(frac(edges[k]) if k < len(edges) else top_edge(edges))
    return t


def top_edge(edges):
    if len(edges) == 1:
        return frac(edges[0]) + 1
    return frac(edges[-1]) + (frac(edges[1]) - frac(edges[0]))


def oracle(edges, v, dt, rc, idx):
    """list of violated clauses for one value (exact rational arithmetic)"""
    n = len(edges)
    if n == 1:
        rc = True
    fv = Fraction(v)
    bad = []
    E = [frac(e) for e in edges]
    if idx < -1 or idx > n - 1:
        bad.append('index %d outside [-1, %d]' % (idx, n - 1))
    for k in range(n):
        in_closed_range = rc or fv < top_edge(edges) - band(n, edges, dt)
        if fv >= E[k] and idx < k and (in_closed_range or idx != -1):
            bad.append('value %r >= edge[%d]=%r but index %d < %d' % (v, k, edges[k], idx, k))
            break
    for k in range(n):
        if fv < E[k] - band(k, edges, dt) and idx >= k:
            bad.append('value %r is more than the round-off band below edge[%d]=%r but index %d >= %d'
                       % (v, k, edges[k], idx, k))
            break
    if not rc and fv >= top_edge(edges) and idx != -1:
        bad.append('closed mode: value %r beyond the last bin but index %d' % (v, idx))
    return bad


def replay(cex):
    C.real_csep()
    from csep.utils import calc
    kind = cex['kind']
    if kind == 'bin':
        edges = np.array(cex['edges'], dtype=float)
        dt = {'f8': np.float64, 'f4': np.float32, 'i8': np.int64}[cex['dt']]
        vals = cex['v'] if isinstance(cex['v'], list) else [cex['v']]
        if cex.get('scalar'):
            arr = dt(vals[0])
        else:
            arr = np.array(vals, dtype=dt)
        try:
            out = calc.bin1d_vec(arr, edges, right_continuous=cex['rc'])
        except Exception as e:
            return True, 'bin1d_vec raised %r on %r' % (e, vals)
        out = np.atleast_1d(out)
        msgs = []
        for v, i in zip(vals, out):
            vv = dt(v)
            msgs += oracle(cex.get('oracle_edges', cex['edges']), float(vv) if cex['dt'] != 'i8' else int(vv), cex['dt'],
                           cex['rc'], int(i))
        if len(vals) == 2:
            a, b = (dt(vals[0]), dt(vals[1]))
            i0, i1 = int(out[0]), int(out[1])
            rc = cex['rc'] or len(cex['edges']) == 1
            if a <= b and i0 > i1 and (rc or (i0 != -1 and i1 != -1)):
                msgs.append('not monotone: %r <= %r but indices %d > %d' % (vals[0], vals[1], i0, i1))
        return bool(msgs), '; '.join(msgs) if msgs else 'real bin1d_vec(%r) = %r satisfies the oracle' % (vals, out.tolist())
    if kind == 'discretize':
        edges = np.array(cex['edges'], dtype=float)
        try:
            out = calc.discretize(np.array([cex['v']]), edges, right_continuous=cex['rc'])
            res = float(out[0])
        except Exception as e:
            res = e
        n = len(edges)
        fv = Fraction(cex['v'])
        E = [frac(e) for e in cex['edges']]
        rc = cex['rc']
        for k in range(n):
            hi = E[k + 1] - band(k + 1, cex['edges'], 'f8') if k + 1 < n else (None if rc else top_edge(cex['edges']) - band(n, cex['edges'], 'f8'))
            if fv >= E[k] and (hi is None or fv < hi):
                if isinstance(res, Exception) or res != cex['edges'][k]:
                    return True, 'discretize(%r) = %r, expected edge %r' % (cex['v'], res, cex['edges'][k])
        if fv < E[0] - band(0, cex['edges'], 'f8') and not isinstance(res, Exception):
            return True, 'discretize(%r) = %r for a value below the first edge' % (cex['v'], res)
        return False, 'discretize(%r) = %r satisfies the oracle' % (cex['v'], res)
    if kind == 'gen':
        start, end, h = cex['start'], cex['end'], cex['h']
        out = calc.cleaner_range(start, end, h)
        m = cex['m']
        A, B, K = cex['A'], cex['B'], cex['K']
        exp = [float(Fraction(A + i * B, 10 ** m)) for i in range(K + 1)]
        got = [float(x) for x in out]
        if got != exp:
            j = next((i for i, (a, b) in enumerate(zip(got, exp)) if a != b), min(len(got), len(exp)))
            return True, ('cleaner_range(%r, %r, %r): element %d is %r, nearest double to the decimal grid is %r; '
                          'lengths %d vs %d' % (start, end, h, j, got[j] if j < len(got) else None,
                                                exp[j] if j < len(exp) else None, len(got), len(exp)))
        return False, 'cleaner_range(%r, %r, %r) equals the decimal grid' % (start, end, h)
    raise ValueError(kind)


# ---- jobs -----------------------------------------------------------------------------------------

def jobs(tier, seed):
    out = []
    grids = C.grid_family(tier, seed)
    for name, edges in grids:
        for rc in (True, False):
            if len(edges) == 1 and not rc:
                continue
            for dt in ('f8', 'f4', 'i8'):
                if tier == 'quick' and dt != 'f8' and name not in ('5.95:0.1:8.95', '-1:0.25:1', 'one-edge'):
                    continue
                out.append({'name': 'bin %s rc=%s %s' % (name, rc, dt), 'kind': 'bin', 'edges': edges, 'rc': rc,
                            'dt': dt, 'tier': tier})
        out.append({'name': 'scalar %s' % name, 'kind': 'bin', 'edges': edges, 'rc': True, 'dt': 'f8', 'scalar': True,
                    'tier': tier})
        if len(edges) > 1:
            if tier == 'thorough' or name in ('5.95:0.1:8.95', '-1:0.25:1', 'two-edge'):
                out += _mono_jobs(name, edges, True, 'f8', tier)
            if tier == 'thorough' or name in ('5.95:0.1:8.95', '-1:0.25:1', '3.0:0.5:8.0'):
                out.append({'name': 'discretize %s' % name, 'kind': 'discretize', 'edges': edges, 'rc': True, 'tier': tier})
    if tier == 'thorough':
        for name, edges in grids[1:4]:
            out += _mono_jobs(name, edges, False, 'f8', tier)
            out += _mono_jobs(name, edges, True, 'f4', tier)
    # shipped / lattice edge arrays
    for lat in C.lattice_family('quick' if tier == 'quick' else 'thorough', seed)[: (4 if tier == 'quick' else 24)]:
        out.append({'name': 'lattice-edges %s' % lat['name'], 'kind': 'latedges', 'lat': lat, 'tier': tier})
    from . import C02gen
    out += C02gen.jobs(tier, seed)
    return out


def _mono_jobs(name, edges, rc, dt, tier, ch=3):
    return [{'name': 'mono %s rc=%s %s bands %d..%d' % (name, rc, dt, k0, min(k0 + ch, len(edges)) - 1), 'kind': 'mono',
             'edges': edges, 'rc': rc, 'dt': dt, 'tier': tier, 'k0': k0, 'k1': min(k0 + ch, len(edges))}
            for k0 in range(0, len(edges), ch)]


def _mkvar(dt, name='v'):
    """symbolic value of the dtype: (element for the array, z3 var, comparison helpers, assumptions)"""
    if dt == 'f8':
        p = z3.FP(name, F64)
        return SFP(p, DT64), p, p, [C.fin(p)]
    if dt == 'f4':
        p = z3.FP(name, F32)
        return SFP(p, DT32), p, z3.fpFPToFP(core.RNE, p, F64), [C.fin(p)]
    p = z3.BitVec(name, 64)
    lim = 10 ** 9
    return SBV(p), p, z3.fpSignedToFP(core.RNE, p, F64), [p >= -lim, p <= lim]


def _model_val(m, p, dt):
    if dt == 'i8':
        return core.int_from_model(m, p)
    return core.fp_from_model(m, p)


def _idx_term(x):
    if isinstance(x, SBV):
        return x.t
    return z3.BitVecVal(int(x), 64)


def run_job(job):
    snap = C.stats_snapshot()
    kind = job['kind']
    if kind == 'gen':
        from . import C02gen
        res = C02gen.run_job(job)
    elif kind == 'latedges':
        res = _run_latedges(job)
    else:
        res = _run_bin(job)
    res.update(C.stats_delta(snap))
    return res


def _violation_terms(edges, v64, idx, rc, dt):
    """z3 disjunction = negation of the oracle for one value"""
    n = len(edges)
    if n == 1:
        rc = True
    E = [frac(e) for e in edges]
    vio = [z3.Or(idx < -1, idx > n - 1)]
    top = top_edge(edges)
    inrange = z3.BoolVal(True) if rc else C.fp_below(v64, top - band(n, edges, dt))
    for k in range(n):
        vio.append(z3.And(C.fp_geq(v64, E[k]), idx < k, z3.Or(inrange, idx != -1)))
        vio.append(z3.And(C.fp_below(v64, E[k] - band(k, edges, dt)), idx >= k))
    if not rc:
        vio.append(z3.And(C.fp_geq(v64, top), idx != -1))
    return z3.Or(vio)


def _run_bin(job):
    edges = job['edges']
    oedges = job.get('oracle_edges', edges)      # the oracle may come from an independent description of the grid
    rc = job['rc']
    dt = job.get('dt', 'f8')
    kind = job['kind']
    L = C.twin()
    calc = L.load('csep.utils.calc')
    bins = symnp.asarray(np.array(edges, dtype=float))
    obs = []
    samples = []
    TO = 120 if job['tier'] == 'quick' else 600
    if kind in ('bin', 'discretize'):
        elem, p, v64, assum = _mkvar(dt)

        def run():
            for a in assum:
                core.assume(a)
            arg = elem if job.get('scalar') else symnp.asarray([elem])
            if kind == 'discretize':
                return calc.discretize(arg, bins, right_continuous=rc)
            return calc.bin1d_vec(arg, bins, right_continuous=rc)
        paths, trunc = core.explore(run)
        first_ok = True
        for i, P in enumerate(paths):
            if kind == 'bin':
                if P.kind == 'exc':
                    st, m, t = C.solve([], TO, P.pc)
                    cex = None
                    if st == 'sat':
                        cex = {'kind': 'bin', 'edges': edges, 'rc': rc, 'dt': dt, 'v': _model_val(m, p, dt),
                               'scalar': bool(job.get('scalar'))}
                    obs.append(_finish(Obligation('no-exception path %d (%s)' % (i, P.exc_name()), st, t, cex)))
                    continue
                r = P.value
                idx = _idx_term(r.a.reshape(-1)[0])
                st, m, t = C.solve([_violation_terms(oedges, v64, idx, rc, dt)], TO, P.pc)
                cex = None
                if st == 'sat':
                    cex = {'kind': 'bin', 'edges': edges, 'rc': rc, 'dt': dt, 'v': _model_val(m, p, dt),
                           'scalar': bool(job.get('scalar'))}
                    if oedges is not edges:
                        cex['oracle_edges'] = oedges
                obs.append(_finish(Obligation('half-open placement, path %d' % i, st, t, cex)))
                if first_ok:
                    first_ok = False
                    obs.append(_reach(P, p, dt, idx, edges, rc, job))
                    samples.append({'grid': edges[:3] + ['...'] if len(edges) > 3 else edges, 'mode': 'open' if rc else 'closed',
                                    'dtype': dt, 'value': 'symbolic: every finite %s' % dt})
            else:
                obs.append(_finish(_discretize_ob(P, i, edges, rc, p, v64, TO)))
    elif kind == 'mono':
        e1, p1, v1, a1 = _mkvar(dt, 'v1')
        e2, p2, v2, a2 = _mkvar(dt, 'v2')

        def run():
            for a in a1 + a2:
                core.assume(a)
            core.assume(z3.fpLEQ(v1, v2))
            return calc.bin1d_vec(symnp.asarray([e1, e2]), bins, right_continuous=rc)
        paths, trunc = core.explore(run)
        for i, P in enumerate(paths):
            if P.kind == 'exc':
                st, m, t = C.solve([], TO, P.pc)
                cex = None
                if st == 'sat':
                    cex = {'kind': 'bin', 'edges': edges, 'rc': rc, 'dt': dt,
                           'v': [_model_val(m, p1, dt), _model_val(m, p2, dt)]}
                obs.append(_finish(Obligation('no-exception path %d (%s)' % (i, P.exc_name()), st, t, cex)))
                continue
            i1 = _idx_term(P.value.a[0])
            i2 = _idx_term(P.value.a[1])
            vio = i1 > i2
            if not rc:
                vio = z3.And(vio, i1 != -1, i2 != -1)
            # Given the placement clauses (decided by the 'bin' jobs), order can only flip inside one
            # round-off band: e_k - band_k <= v1 <= v2 < e_k. One query per chunk of bands.
            E = [frac(e) for e in edges]
            ks = list(range(job['k0'], job['k1']))
            CH = len(ks)
            for c0 in range(0, len(ks), CH):
                bands = []
                for k in ks[c0:c0 + CH]:
                    bands.append(z3.And(C.fp_geq(v1, E[k] - band(k, edges, dt)), C.fp_below(v2, E[k])))
                st, m, t = C.solve([vio, z3.Or(bands)], TO, P.pc)
                cex = None
                if st == 'sat':
                    cex = {'kind': 'bin', 'edges': edges, 'rc': rc, 'dt': dt,
                           'v': [_model_val(m, p1, dt), _model_val(m, p2, dt)]}
                obs.append(_finish(Obligation('monotone inside bands %d..%d, path %d' % (ks[0], ks[-1], i),
                                              st, t, cex)))
        samples.append({'grid': edges[:3], 'two symbolic values': 'v1 <= v2, every finite pair'})
    return {'obligations': [o.as_dict() for o in obs], 'samples': samples}


def _discretize_ob(P, i, edges, rc, p, v64, TO):
    n = len(edges)
    E = [frac(e) for e in edges]
    if P.kind == 'exc':
        if P.exc_name() != 'CSEPException':
            st, m, t = C.solve([], TO, P.pc)
            cex = {'kind': 'discretize', 'edges': edges, 'rc': rc, 'v': core.fp_from_model(m, p)} if st == 'sat' else None
            return Obligation('discretize: unexpected %s' % P.exc_name(), st, t, cex)
        # rejection is right only below the first edge (band allowed) or beyond a closed top
        ok_region = [C.fp_geq(v64, E[0])]
        if not rc:
            ok_region.append(C.fp_below(v64, top_edge(edges) - band(n, edges, 'f8')))
        st, m, t = C.solve(ok_region, TO, P.pc)
        cex = {'kind': 'discretize', 'edges': edges, 'rc': rc, 'v': core.fp_from_model(m, p)} if st == 'sat' else None
        return Obligation('discretize rejects only out-of-range values, path %d' % i, st, t, cex)
    x = P.value.a.reshape(-1)[0]
    xt = x.t if isinstance(x, SFP) else fpconst(float(x))
    vio = []
    for k in range(n):
        c = [C.fp_geq(v64, E[k])]
        if k + 1 < n:
            c.append(C.fp_below(v64, E[k + 1] - band(k + 1, edges, 'f8')))
        elif not rc:
            c.append(C.fp_below(v64, top_edge(edges) - band(n, edges, 'f8')))
        vio.append(z3.And(*c, z3.Not(z3.fpEQ(xt, fpconst(edges[k])))))
    vio.append(C.fp_below(v64, E[0] - band(0, edges, 'f8')))
    st, m, t = C.solve([z3.Or(vio)], TO, P.pc)
    cex = {'kind': 'discretize', 'edges': edges, 'rc': rc, 'v': core.fp_from_model(m, p)} if st == 'sat' else None
    return Obligation('discretize returns the lower edge of the bin, path %d' % i, st, t, cex)


def _finish(o):
    """replay a sat counterexample on the real code"""
    if o.status == 'sat' and o.cex is not None:
        try:
            o.reproduced, o.detail = replay(o.cex)
        except Exception as e:
            o.reproduced, o.detail = False, 'replay crashed: %r' % (e,)
        if o.reproduced:
            o.known_key = classify(o.cex)
    return o


def classify(cex):
    """known-finding class of a reproduced counterexample (None = not a listed class)"""
    if cex['kind'] == 'bin':
        e = cex['edges']
        if len(e) > 1 and abs(e[0]) < (e[1] - e[0]):
            return 'first-edge-smaller-than-step'
    return None


def _reach(P, p, dt, idx, edges, rc, job):
    """reachability twin + translation validation: a model of the path, real code must give the same index"""
    st, m, t = C.solve([], 60, P.pc)
    o = Obligation('reachability witness', st, t, kind='reach')
    if st == 'sat':
        v = _model_val(m, p, dt)
        want = core.int_from_model(m, idx)
        C.real_csep()
        from csep.utils import calc
        npdt = {'f8': np.float64, 'f4': np.float32, 'i8': np.int64}[dt]
        arr = npdt(v) if job.get('scalar') else np.array([v], dtype=npdt)
        got = int(np.atleast_1d(calc.bin1d_vec(arr, np.array(edges, dtype=float), right_continuous=rc))[0])
        o.reproduced = (got == want)
        o.detail = 'v=%r symbolic idx=%d real idx=%d' % (v, want, got)
    return o


def _run_latedges(job):
    """the lon/lat edge arrays of a lattice region (built by the real code) as 1-D grids, open mode as
    get_index_of uses them"""
    lat = job['lat']
    rc_mod = C.real_csep()
    from csep.core import regions
    from csep import models
    reg = C.build_region(regions, models, lat)
    obs = []
    samples = []
    for axis, edges in (('xs', [float(x) for x in reg.xs]), ('ys', [float(x) for x in reg.ys])):
        sub = dict(job)
        sub.update({'kind': 'bin', 'edges': edges, 'rc': False, 'dt': 'f8'})
        r = _run_bin(sub)
        for o in r['obligations']:
            o['name'] = '%s %s' % (axis, o['name'])
        obs += r['obligations']
        samples += r['samples'][:1]
    return {'obligations': obs, 'samples': samples}
