"""C04 -- catalog filtering keeps exactly the events that satisfy every statement (DESIGN 4/C04)."""
import datetime as rdt
import operator

import numpy as np
import z3

from symx import core, symnp, symdt, loader
from symx.core import XR, SInt
from symx.harness import Obligation
from . import common as C

ID = 'C04'
KNOWN_KEYS = {}
META = {
    'functions': ['csep/core/catalogs.py AbstractBaseCatalog.filter', 'csep/core/catalogs.py filter_spatial',
                  'csep/core/catalogs.py catalog setter / _get_catalog_as_ndarray / update_catalog_stats',
                  'csep/utils/time_utils.py strptime_to_utc_epoch', 'csep/utils/time_utils.py parse_string_format',
                  'csep/utils/time_utils.py strptime_to_utc_datetime', 'csep/utils/time_utils.py datetime_to_utc_epoch'],
    'theory': 'catalog = structured array with symbolic fields (origin_time Int ms; latitude, longitude, depth, magnitude real); '
              'thresholds symbolic (carried through split/float by a literal token); datetime statements through the datetime model',
    'bounds': {'quick': 'N = 2 events; all 25 attribute x operator single statements, string and list form, both in_place modes; '
                        '5 datetime operators; 24 statement pairs in both orders and sequentially; idempotence; spatial filter',
               'thorough': 'N = 3; all 625 ordered pairs'},
    'outside': ['N beyond the bound', 'statement lists longer than 2', 'malformed statements',
                'thresholds that are not a float literal', 'int64 vs float64 comparison taken as exact (|ms| < 2^53)'],
    'stubs': ['threshold literal: float(token) returns the symbolic value (contract float(repr(x)) == x)',
              'time strings: placeholders with real syntax and symbolic instant', 'region: cell(lon, lat) uninterpreted (C01 contract)'],
    'assumptions': ['origin times in 1900..2200'],
}

ATTRS = ['origin_time', 'latitude', 'longitude', 'depth', 'magnitude']
OPS = {'>': operator.gt, '<': operator.lt, '>=': operator.ge, '<=': operator.le, '==': operator.eq}
M_LO, M_HI = -2208988800000, 7258118400000


# ---- replay -----------------------------------------------------------------------------------------------------

def _real_cat(rows, region=None):
    C.real_csep()
    from csep.core.catalogs import CSEPCatalog
    data = [('e%d' % i, int(r['origin_time']), float(r['latitude']), float(r['longitude']), float(r['depth']), float(r['magnitude']))
            for i, r in enumerate(rows)]
    return CSEPCatalog(data=data, region=region)


def _stmt_text(st):
    if st['attr'] == 'datetime':
        d = rdt.datetime(1970, 1, 1) + rdt.timedelta(microseconds=int(st['us']))
        return 'datetime %s %s' % (st['op'], d.strftime('%Y-%m-%d %H:%M:%S.%f'))
    v = st['value']
    return '%s %s %r' % (st['attr'], st['op'], float(v))


def _holds(row, st):
    if st['attr'] == 'datetime':
        return OPS[st['op']](int(row['origin_time']) * 1000, int(st['us']))
    return OPS[st['op']](row[st['attr']] if st['attr'] != 'origin_time' else int(row['origin_time']), float(st['value']))


def _replay_spatial(cex):
    from . import C03
    reg, lat = C03._real_region_cart(3)
    rows = []
    for r, c in zip(cex['rows'], cex['cells']):
        r = dict(r)
        if c < 0:
            r['longitude'], r['latitude'] = 5.0, 5.0
        else:
            r['longitude'], r['latitude'] = lat['origins'][c][0] + 0.25, lat['origins'][c][1] + 0.25
        rows.append(r)
    want = ['e%d' % i for i, c in enumerate(cex['cells']) if c >= 0]
    msgs = []
    for in_place in (True, False):
        c0 = _real_cat(rows)
        ret = c0.filter_spatial(region=reg, in_place=in_place)
        got = [x.decode() for x in ret.get_event_ids()]
        if got != want:
            msgs.append('filter_spatial(in_place=%s) keeps %r, events inside the region are %r' % (in_place, got, want))
        if not in_place and ([x.decode() for x in c0.get_event_ids()] != ['e%d' % i for i in range(len(rows))] or ret is c0):
            msgs.append('in_place=False changed the original catalog')
    return bool(msgs), '; '.join(msgs) or 'filter_spatial keeps exactly the events inside the region'


def replay(cex):
    if cex.get('cells') is not None:
        return _replay_spatial(cex)
    rows, stmts = cex['rows'], cex['stmts']
    texts = [_stmt_text(s) for s in stmts]
    want = ['e%d' % i for i, r in enumerate(rows) if all(_holds(r, s) for s in stmts)]
    msgs = []

    def ids(c):
        return [x.decode() for x in c.get_event_ids()]
    variants = []
    if len(texts) == 1:
        variants.append(('filter(%r)' % texts[0], lambda c: c.filter(texts[0])))
        variants.append(('filter([%r])' % texts[0], lambda c: c.filter([texts[0]])))
    else:
        variants.append(('filter(%r)' % texts, lambda c: c.filter(list(texts))))
        variants.append(('filter(%r)' % texts[::-1], lambda c: c.filter(list(texts[::-1]))))
        variants.append(('sequential', lambda c: c.filter(texts[0]).filter(texts[1])))
    variants.append(('twice', lambda c: c.filter(list(texts)).filter(list(texts))))
    variants.append(('copy (in_place=False) then the same statements in place', lambda c: (c.filter(list(texts), in_place=False), c.filter(list(texts)))[1]))
    for nm, f in variants:
        got = ids(f(_real_cat(rows)))
        if got != want:
            msgs.append('%s keeps %r, events satisfying every statement are %r' % (nm, got, want))
    c0 = _real_cat(rows)
    ret = c0.filter(list(texts), in_place=False)
    if ids(ret) != want or ids(c0) != ['e%d' % i for i in range(len(rows))] or ret is c0:
        msgs.append('in_place=False: returned %r, original now %r' % (ids(ret), ids(c0)))
    # fields unchanged
    kept = _real_cat(rows).filter(list(texts))
    for j, i in enumerate([i for i, r in enumerate(rows) if all(_holds(r, s) for s in stmts)]):
        if j < kept.event_count:
            r = rows[i]
            e = kept.catalog[j]
            if (int(e['origin_time']), float(e['latitude']), float(e['longitude']), float(e['depth']), float(e['magnitude'])) != \
                    (int(r['origin_time']), float(r['latitude']), float(r['longitude']), float(r['depth']), float(r['magnitude'])):
                msgs.append('fields of kept event %d changed' % i)
    return bool(msgs), ('rows %r: ' % rows) + ('; '.join(msgs) or 'filter agrees with the statements %r' % texts)


# ---- jobs --------------------------------------------------------------------------------------------------------

def jobs(tier, seed):
    out = []
    N = 2 if tier == 'quick' else 3
    for a in ATTRS:
        out.append({'name': 'single statements on %s' % a, 'kind': 'single', 'attr': a, 'N': N, 'cost': 5})
    out.append({'name': 'datetime statements', 'kind': 'single', 'attr': 'datetime', 'N': N, 'cost': 8})
    rng = np.random.RandomState(4242 + seed)
    allst = [(a, o) for a in ATTRS + ['datetime'] for o in OPS]
    if tier == 'quick':
        pairs = [(allst[i], allst[j]) for i, j in zip(rng.randint(0, len(allst), 24), rng.randint(0, len(allst), 24))]
        pairs += [(('magnitude', '>='), ('magnitude', '<')), (('datetime', '>='), ('origin_time', '<'))]
    else:
        pairs = [(x, y) for x in allst for y in allst]
    CH = 6 if tier == 'quick' else 25
    for i in range(0, len(pairs), CH):
        out.append({'name': 'statement pairs %d..%d' % (i, min(i + CH, len(pairs)) - 1), 'kind': 'pairs', 'pairs': pairs[i:i + CH], 'N': 2,
                    'cost': 20})
    out.append({'name': 'spatial filter', 'kind': 'spatial', 'N': N, 'cost': 5})
    for op in OPS:
        out.append({'name': 'datetime %s statement, float steps modelled' % op, 'kind': 'dtfp', 'op': op, 'N': 1, 'cost': 30})
    for j in out:
        j['tier'] = tier
        j['wall'] = 800 if tier == 'quick' else 3400
    return out


def run_job(job):
    snap = C.stats_snapshot()
    core.MODE['float'] = 'xr'
    core.OPT['lazy_bounds'] = True
    res = globals()['_job_' + job['kind']](job)
    res.update(C.stats_delta(snap))
    return res


def _tw():
    L = C.twin(models={'datetime': symdt.module, 'calendar': symdt.calendar})
    return L, L.load('csep.core.catalogs')


class _Sym:
    """symbolic catalog rows and statements"""

    def __init__(self, N):
        self.N = N
        self.t = [z3.Int('t%d' % i) for i in range(N)]
        self.f = {a: [z3.Real('%s%d' % (a[:3], i)) for i in range(N)] for a in ATTRS[1:]}

    def assume(self):
        for t in self.t:
            core.assume(z3.And(t >= M_LO, t <= M_HI))

    def rec(self, cats):
        rec = symnp.rec_empty(self.N, cats.CSEPCatalog.dtype)
        for i in range(self.N):
            rec.cols['id'].a[i] = ('e%d' % i).encode()
        if self.N:
            rec.cols['origin_time'] = symnp.asarray([SInt(t) for t in self.t], dtype=np.int64)
            for a in ATTRS[1:]:
                rec.cols[a] = symnp.asarray([XR(x) for x in self.f[a]])
        return rec

    def cat(self, cats, region=None):
        return cats.CSEPCatalog(data=self.rec(cats), region=region, compute_stats=False)

    def field(self, a, i):
        return z3.ToReal(self.t[i]) if a == 'origin_time' else self.f[a][i]

    def rows(self, mod):
        return [dict([('origin_time', core.int_from_model(mod, self.t[i]))] +
                     [(a, float(core.real_from_model(mod, self.f[a][i]))) for a in ATTRS[1:]]) for i in range(self.N)]


class _Stmt:
    def __init__(self, attr, op, tag):
        self.attr, self.op, self.tag = attr, op, tag
        if attr == 'datetime':
            self.ms = z3.Int('T%s' % tag)           # whole-millisecond instant
        else:
            self.v = z3.Real('V%s' % tag)

    def assume(self):
        if self.attr == 'datetime':
            core.assume(z3.And(self.ms >= M_LO, self.ms <= M_HI))

    def text(self):
        if self.attr == 'datetime':
            return 'datetime %s %s' % (self.op, symdt.placeholder(SInt(self.ms) * 1000, ' ', True, False))
        return '%s %s %s' % (self.attr, self.op, loader.sym_literal(XR(self.v)))

    def holds(self, sym, i):
        f = {'>': lambda a, b: a > b, '<': lambda a, b: a < b, '>=': lambda a, b: a >= b, '<=': lambda a, b: a <= b,
             '==': lambda a, b: a == b}[self.op]
        if self.attr == 'datetime':
            return f(sym.t[i], self.ms)
        return f(sym.field(self.attr, i), self.v)

    def model(self, mod):
        if self.attr == 'datetime':
            return {'attr': 'datetime', 'op': self.op, 'us': core.int_from_model(mod, self.ms) * 1000}
        return {'attr': self.attr, 'op': self.op, 'value': float(core.real_from_model(mod, self.v))}


def _rows_of(cat):
    """rows of a (twin) catalog as python tuples of terms / values"""
    data = cat.catalog
    n = len(data)
    out = []
    for i in range(n):
        out.append((bytes(data['id'].a[i]) if not isinstance(data['id'].a[i], str) else data['id'].a[i].encode(),
                    data['origin_time'].a[i], data['latitude'].a[i], data['longitude'].a[i], data['depth'].a[i], data['magnitude'].a[i]))
    return out


def _same_rows_vio(sym, keep, rows):
    """z3: `rows` (concrete length) is NOT exactly the sub-sequence of the input rows selected by `keep` (list of Bool)"""
    N = sym.N
    L = len(rows)
    cnt = z3.Sum([z3.If(k, 1, 0) for k in keep]) if keep else z3.IntVal(0)
    bad = [cnt != L]
    for j in range(N):
        pos = z3.Sum([z3.If(keep[i], 1, 0) for i in range(j)]) if j else z3.IntVal(0)
        for p in range(L):
            rid, t, la, lo, de, ma = rows[p]
            eq = [z3.BoolVal(rid == ('e%d' % j).encode())]
            for term, want in ((t, z3.ToReal(sym.t[j])), (la, sym.f['latitude'][j]), (lo, sym.f['longitude'][j]),
                               (de, sym.f['depth'][j]), (ma, sym.f['magnitude'][j])):
                eq.append(core.R(term).v == want)
            bad.append(z3.And(keep[j], pos == p, z3.Not(z3.And(eq))))
    return z3.Or(bad)


def _job_single(job):
    L, cats = _tw()
    N, attr = job['N'], job['attr']
    sym = _Sym(N)
    obs = []
    npaths = 0
    for op in OPS:
        st = _Stmt(attr, op, 'a')
        for form in ('str', 'list'):
            for in_place in (True, False):
                def run():
                    sym.assume()
                    st.assume()
                    cat = sym.cat(cats)
                    txt = st.text()
                    ret = cat.filter(txt if form == 'str' else [txt], in_place=in_place)
                    return _rows_of(ret), _rows_of(cat), ret is cat
                paths, trunc = core.explore(run, max_paths=500)
                npaths += len(paths)
                keep = [st.holds(sym, i) for i in range(N)]

                def vio(P):
                    rr, orig, same = P.value
                    if in_place:
                        return z3.Or(_same_rows_vio(sym, keep, rr), z3.BoolVal(not same))
                    return z3.Or(_same_rows_vio(sym, keep, rr), _same_rows_vio(sym, [z3.BoolVal(True)] * N, orig), z3.BoolVal(same))
                o = C.path_obligations(paths, vio, lambda mod, P: {'rows': sym.rows(mod), 'stmts': [st.model(mod)]}, replay,
                                       '%s %s (%s form, in_place=%s)' % (attr, op, form, in_place), 60)
                from .C16 import _aggregate
                obs += _aggregate(o, paths, trunc)
        # call history: a filtered copy is requested first (in_place=False), then the same statements are applied in place
        def run2():
            sym.assume()
            st.assume()
            cat = sym.cat(cats)
            txt = st.text()
            a = cat.filter([txt], in_place=False)
            b = cat.filter([txt])
            return _rows_of(a), _rows_of(b), b is cat
        paths, trunc = core.explore(run2, max_paths=500)
        npaths += len(paths)
        keep = [st.holds(sym, i) for i in range(N)]
        o = C.path_obligations(paths, lambda P: z3.Or(_same_rows_vio(sym, keep, P.value[0]), _same_rows_vio(sym, keep, P.value[1]), z3.BoolVal(not P.value[2])),
                               lambda mod, P: {'rows': sym.rows(mod), 'stmts': [st.model(mod)]}, replay,
                               '%s %s (filtered copy, then the same statements in place)' % (attr, op), 60)
        from .C16 import _aggregate
        obs += _aggregate(o, paths, trunc)
    return {'obligations': [o.as_dict() for o in obs],
            'samples': [{'attribute': attr, 'events': N, 'thresholds': 'symbolic', 'paths': npaths}]}


def _job_pairs(job):
    L, cats = _tw()
    N = job['N']
    sym = _Sym(N)
    obs = []
    npaths = 0
    for (a1, o1), (a2, o2) in job['pairs']:
        s1, s2 = _Stmt(a1, o1, 'a'), _Stmt(a2, o2, 'b')

        def run():
            sym.assume()
            s1.assume()
            s2.assume()
            t1, t2 = s1.text(), s2.text()
            r_ab = _rows_of(sym.cat(cats).filter([t1, t2]))
            r_ba = _rows_of(sym.cat(cats).filter((t2, t1)))
            r_seq = _rows_of(sym.cat(cats).filter(t1).filter(t2))
            r_twice = _rows_of(sym.cat(cats).filter([t1, t2]).filter([t1, t2]))
            return r_ab, r_ba, r_seq, r_twice
        paths, trunc = core.explore(run, max_paths=3000)
        npaths += len(paths)
        keep = [z3.And(s1.holds(sym, i), s2.holds(sym, i)) for i in range(N)]

        def vio(P):
            return z3.Or([_same_rows_vio(sym, keep, r) for r in P.value])
        o = C.path_obligations(paths, vio, lambda mod, P: {'rows': sym.rows(mod), 'stmts': [s1.model(mod), s2.model(mod)]}, replay,
                               '[%s %s, %s %s]: both orders, sequential and repeated application' % (a1, o1, a2, o2), 60)
        from .C16 import _aggregate
        obs += _aggregate(o, paths, trunc)
    return {'obligations': [o.as_dict() for o in obs], 'samples': [{'pairs': [list(map(list, p)) for p in job['pairs']][:3], 'events': N, 'paths': npaths}]}


def _job_spatial(job):
    L, cats = _tw()
    regions = L.load('csep.core.regions')
    N = job['N']
    sym = _Sym(N)
    cellof = z3.Function('cellof', z3.RealSort(), z3.RealSort(), z3.IntSort())

    class AbsRegion(regions.CartesianGrid2D):
        def __init__(self):
            self.polygons = [None] * 3
            self.magnitudes = None
            self.name = 'abstract'

        def get_masked(self, lons, lats):
            lo, la = symnp.asarray(lons), symnp.asarray(lats)
            out = []
            for i in range(len(lo)):
                c = cellof(core.R(lo[i]).v, core.R(la[i]).v)
                core.assume(z3.And(c >= -1, c < 3))
                out.append(core.SBool(c == -1))
            return symnp.asarray(out) if out else symnp.zeros(0, dtype=bool)
    obs = []
    npaths = 0
    for in_place in (True, False):
        def run():
            sym.assume()
            reg = AbsRegion()
            cat = sym.cat(cats)
            ret = cat.filter_spatial(region=reg, in_place=in_place)
            return _rows_of(ret), _rows_of(cat), ret is cat
        paths, trunc = core.explore(run, max_paths=500)
        npaths += len(paths)
        keep = [cellof(sym.f['longitude'][i], sym.f['latitude'][i]) != -1 for i in range(N)]

        def vio(P):
            rr, orig, same = P.value
            if in_place:
                return z3.Or(_same_rows_vio(sym, keep, rr), z3.BoolVal(not same))
            return z3.Or(_same_rows_vio(sym, keep, rr), _same_rows_vio(sym, [z3.BoolVal(True)] * N, orig), z3.BoolVal(same))
        o = C.path_obligations(paths, vio, lambda mod, P: {'rows': sym.rows(mod), 'stmts': [],
                                                           'cells': [core.int_from_model(mod, cellof(sym.f['longitude'][i], sym.f['latitude'][i]))
                                                                     for i in range(N)]},
                               replay,
                               'filter_spatial keeps exactly the unmasked events (in_place=%s)' % in_place, 60)
        from .C16 import _aggregate
        obs += _aggregate(o, paths, trunc)
    return {'obligations': [o.as_dict() for o in obs], 'samples': [{'events': N, 'region': 'abstract (C01 contract)', 'paths': npaths}]}


def _job_dtfp(job):
    """datetime statements with the float steps of the code modelled: first under the sound rounding envelope (integers +
    reals with per-operation half-ulp error bounds: unsat there is a proof for IEEE doubles); if that only yields candidates
    which do not replay, the bit-exact FP64 encoding is asked for a real witness"""
    r = _dtfp_mode(job, 'env')
    if any(o['status'] == 'sat' and not o.get('reproduced') for o in r['obligations']):
        r2 = _dtfp_mode(job, 'fp')
        for o in r2['obligations']:
            o['name'] = 'FP64 exact: ' + o['name']
        r['obligations'] = [o for o in r['obligations'] if not (o['status'] == 'sat' and not o.get('reproduced'))] + r2['obligations']
    return r


def _dtfp_mode(job, mode):
    from symx.core import SBV
    core.MODE['float'] = mode
    L, cats = _tw()
    if mode == 'fp':
        t0, T = z3.BitVec('t0', 64), z3.BitVec('T', 64)
        wrap = SBV
    else:
        t0, T = z3.Int('t0'), z3.Int('T')
        wrap = SInt
    obs = []
    npaths = 0
    for op in ([job['op']] if job.get('op') else list(OPS)):
        def run():
            core.assume(z3.And(t0 >= M_LO, t0 <= M_HI, T >= M_LO, T <= M_HI))
            if mode == 'fp':
                core.assume(z3.And(t0 - T <= 1, T - t0 <= 1))       # a wrong threshold shows on an event within 1 ms of it
            rec = symnp.rec_empty(1, cats.CSEPCatalog.dtype)
            rec.cols['id'].a[0] = b'e0'
            rec.cols['origin_time'] = symnp.asarray([wrap(t0)], dtype=np.int64)
            cat = cats.CSEPCatalog(data=rec, compute_stats=False)
            txt = 'datetime %s %s' % (op, symdt.placeholder(wrap(T) * 1000, ' ', True, False))
            return len(cat.filter(txt).catalog)
        paths, trunc = core.explore(run, max_paths=200)
        npaths += len(paths)
        holds = {'>': t0 > T, '<': t0 < T, '>=': t0 >= T, '<=': t0 <= T, '==': t0 == T}[op]

        def cexf(mod, P):
            return {'rows': [{'origin_time': core.int_from_model(mod, t0), 'latitude': 0.0, 'longitude': 0.0, 'depth': 0.0, 'magnitude': 0.0}],
                    'stmts': [{'attr': 'datetime', 'op': op, 'us': core.int_from_model(mod, T) * 1000}]}
        o = C.path_obligations(paths, lambda P: z3.BoolVal(P.value == 1) != holds, cexf, replay,
                               'datetime %s T keeps the event iff origin_time %s ms(T), float steps modelled' % (op, op), 150,
                               candidate_only=(mode != 'fp'))
        from .C16 import _aggregate
        obs += _aggregate(o, paths, trunc)
    return {'obligations': [o.as_dict() for o in obs],
            'samples': [{'attribute': 'datetime', 'events': 1, 'instants': 'every integer millisecond of 1900..2200', 'mode': mode, 'paths': npaths}]}
