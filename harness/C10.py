"""C10 -- catalog-based consistency tests compute the documented statistics (DESIGN 4/C10).

The real catalog_evaluations.{pseudolikelihood,spatial,magnitude,resampled_magnitude,MLL_magnitude}_test run on a real
(re-imported) CatalogForecast holding J synthetic-catalog stubs with *symbolic gridded counts*, against an observed-catalog
stub with symbolic gridded counts. The oracle is the formula of docs/getting_started/theory.rst (and of the two docstrings
for the resampled / MLL tests) re-stated directly over the counts, in real arithmetic with uninterpreted log / log10 /
lgamma; quantiles against the counting definition (C09); not-valid / skipped / undersampled paths as the property states.
The number test is C07's catalog job.
"""
import math

import numpy as np
import z3

from symx import core, symnp
from symx.core import XR, SInt
from symx.harness import Obligation
from . import common as C
from . import evalfix as F

ID = 'C10'
KNOWN_KEYS = {}
META = {
    'functions': ['csep/core/catalog_evaluations.py pseudolikelihood_test', 'csep/core/catalog_evaluations.py spatial_test',
                  'csep/core/catalog_evaluations.py magnitude_test', 'csep/core/catalog_evaluations.py resampled_magnitude_test',
                  'csep/core/catalog_evaluations.py MLL_magnitude_test', 'csep/utils/calc.py _compute_likelihood',
                  'csep/utils/stats.py cumulative_square_diff / MLL_score / log_d_multinomial / get_quantiles / ecdf functions',
                  'csep/core/forecasts.py CatalogForecast.__next__/get_expected_rates', 'csep/core/forecasts.py GriddedForecast.spatial_counts/magnitude_counts/sum'],
    'theory': 'extended reals + integers with uninterpreted log / log10 / lgamma; divisions eliminated (q*den = num) with '
              'functional-consistency lemmas between the code\'s and the specification\'s quotients',
    'bounds': {'quick': 'J = 2 synthetic catalogs (some empty) on 2 cells x 1 magnitude bin (PL, spatial) / 1 cell x 2 bins '
                        '(magnitude tests), counts 0..2 per bin, observed counts 0..2 per bin (empty observation and events in '
                        'never-sampled cells included); one resampled catalog per synthetic catalog with symbolic draws',
               'thorough': 'J = 3; 2 cells x 2 bins (PL, spatial), 2 bins and 3 bins (magnitude tests)'},
    'outside': ['rounding of the floating-point sums (equality as real expressions)', 'J > 3, more than 4 bins',
                'forecasts whose synthetic catalogs are all empty (every statistic is undefined)',
                'calibration_test (Kolmogorov-Smirnov statistic is library code)', 'MLL full_calculation=True (resampling of raw magnitudes)',
                'the gridding of catalogs (C03) and the streaming of forecasts (C12, C13)'],
    'stubs': ['synthetic / observed catalogs reduced to their gridded counts', 'numpy.random.choice: arbitrary elements with positive probability',
              'log, log10, loggamma uninterpreted'],
    'assumptions': ['at least one synthetic catalog has an event', 'counts are integers in 0..2 per bin'],
}

CMAX = 2


# ---- concrete reference (documentation formulas), used by the replay ---------------------------------------------------------

def ref_pl(cats, obs):
    """cats: J x cells x mags counts, obs: cells x mags -> (dist, stat or None, status)"""
    J = len(cats)
    nc = len(obs)
    lam = [sum(sum(c[i]) for c in cats) / J for i in range(nc)]
    nbar = sum(lam)
    def pl(g):
        return sum(g[i] * math.log(lam[i]) for i in range(nc) if g[i] > 0) - nbar
    dist = [pl([sum(c[i]) for i in range(nc)]) for c in cats]
    so = [sum(obs[i]) for i in range(nc)]
    if sum(so) == 0:
        return dist, None, None
    status = 'normal'
    if any(so[i] > 0 and lam[i] == 0 for i in range(nc)):
        so = [so[i] if lam[i] > 0 else 0 for i in range(nc)]
        status = 'undersampled'
        if sum(so) == 0:
            return dist, None, None
    return dist, pl(so), status


def ref_spatial(cats, obs):
    J = len(cats)
    nc = len(obs)
    lam = [sum(sum(c[i]) for c in cats) / J for i in range(nc)]
    tot = sum(lam)
    def s(g):
        return sum(g[i] * math.log(lam[i] / tot) for i in range(nc) if g[i] > 0) / sum(g)
    dist = []
    for c in cats:
        g = [sum(c[i]) for i in range(nc)]
        if sum(g) > 0:
            dist.append(s(g))
    so = [sum(obs[i]) for i in range(nc)]
    if sum(so) == 0:
        return dist, None, 'not-valid'
    status = 'normal'
    if any(so[i] > 0 and lam[i] == 0 for i in range(nc)):
        so = [so[i] if lam[i] > 0 else 0 for i in range(nc)]
        status = 'undersampled'
        if sum(so) == 0:
            return dist, None, 'not-valid'
    return dist, s(so), status


def _hist(c):
    nm = len(c[0])
    return [sum(row[k] for row in c) for k in range(nm)]


def ref_magnitude(cats, obs):
    oh = _hist(obs)
    n = sum(oh)
    if n == 0:
        return [], None, 'not-valid'
    nm = len(oh)
    U = [sum(_hist(c)[k] for c in cats) for k in range(nm)]
    NU = sum(U)
    def d(h, nh):
        return sum((math.log10(U[k] * n / NU + 1) - math.log10(h[k] * n / nh + 1)) ** 2 for k in range(nm))
    dist = [d(_hist(c), sum(_hist(c))) for c in cats if sum(_hist(c)) > 0]
    return dist, d(oh, n), 'normal'


def ref_resampled(cats, obs, draws):
    """draws: per synthetic catalog the list of bin indices drawn"""
    oh = _hist(obs)
    n = sum(oh)
    if n == 0:
        return [], None, 'not-valid'
    nm = len(oh)
    U = [sum(_hist(c)[k] for c in cats) for k in range(nm)]
    NU = sum(U)
    def d(h):
        return sum((math.log10(U[k] * n / NU + 1) - math.log10(h[k] + 1)) ** 2 for k in range(nm))
    dist = []
    for dr in draws:
        h = [sum(1 for x in dr if x == k) for k in range(nm)]
        dist.append(d(h))
    return dist, d(oh), 'normal'


def _logd(x):
    s = sum(x)
    return math.lgamma(s + 1) + sum(xi * math.log(xi / s) - math.lgamma(xi + 1) for xi in x)


def ref_mll(cats, obs, draws):
    oh = _hist(obs)
    n = sum(oh)
    if n == 0:
        return [], None, 'not-valid'
    nm = len(oh)
    U = [sum(_hist(c)[k] for c in cats) for k in range(nm)]
    NU = sum(U)
    def score(h):
        nh = sum(h)
        um = [U[k] + NU / nh for k in range(nm)]
        cm = [h[k] + 1 for k in range(nm)]
        mg = [um[k] + cm[k] for k in range(nm)]
        return 2 * (_logd(mg) - _logd(um) - _logd(cm))
    dist = []
    for dr in draws:
        h = [sum(1 for x in dr if x == k) for k in range(nm)]
        dist.append(score(h))
    return dist, score(oh), 'normal'


# ---- replay on the real package -----------------------------------------------------------------------------------------------

def _real_setup(cats, obs):
    C.real_csep()
    from csep.core import regions, forecasts
    from csep.core.catalogs import CSEPCatalog
    from csep import models
    nc, nm = len(obs), len(obs[0])
    lat = C.lattice('row', nc, 1, 0.5, (10.0, 40.0)) if nc > 1 else C.lattice('one', 1, 1, 0.5, (10.0, 40.0))
    reg = C.build_region(regions, models, lat)
    mags = np.array(F.MAGS[:nm])
    reg.magnitudes = mags
    reg.num_mag_bins = nm

    def mk(c, name):
        ev = []
        for i in range(nc):
            for k in range(nm):
                for _ in range(c[i][k]):
                    ev.append(('e%d' % len(ev), 0, lat['origins'][i][1] + 0.25, lat['origins'][i][0] + 0.25, 10.0, mags[k] + 0.5))
        return CSEPCatalog(data=ev, region=reg, name=name)
    fc = forecasts.CatalogForecast(catalogs=[mk(c, 'c%d' % j) for j, c in enumerate(cats)], region=reg, n_cat=len(cats), name='cf')
    return fc, mk(obs, 'obs'), mags


def _close(a, b):
    if a is None or b is None:
        return a is None and b is None
    a, b = float(a), float(b)
    if math.isnan(a) or math.isnan(b):
        return math.isnan(a) and math.isnan(b)
    if math.isinf(a) or math.isinf(b):
        return a == b
    return abs(a - b) <= 1e-9 * max(1.0, abs(a), abs(b))


def replay(cex):
    import io
    import contextlib
    from unittest import mock
    test, cats, obs = cex['test'], cex['cats'], cex['obs']
    fc, oc, mags = _real_setup(cats, obs)
    from csep.core import catalog_evaluations as ce
    draws = cex.get('draws') or []
    nm = len(obs[0])
    half = (mags[1] - mags[0]) / 2 if nm > 1 else 0.5
    seq = iter(draws)

    def fake_choice(a, size=None, replace=True, p=None):
        try:
            dr = next(seq)
        except StopIteration:
            dr = [int(np.argmax(p))] * int(size)
        return np.asarray(a)[np.array(dr, dtype=int)] if len(dr) else np.zeros(0)
    fn = {'pl': ce.pseudolikelihood_test, 'spatial': ce.spatial_test, 'magnitude': ce.magnitude_test,
          'resampled': ce.resampled_magnitude_test, 'mll': ce.MLL_magnitude_test}[test]
    try:
        with contextlib.redirect_stdout(io.StringIO()), np.errstate(all='ignore'), mock.patch('numpy.random.choice', fake_choice):
            res = fn(fc, oc, verbose=False)
    except Exception as e:
        return True, '%s_test raised %r (synthetic %r, observed %r)' % (test, e, cats, obs)
    if test == 'pl':
        dist, stat, status = ref_pl(cats, obs)
    elif test == 'spatial':
        dist, stat, status = ref_spatial(cats, obs)
    elif test == 'magnitude':
        dist, stat, status = ref_magnitude(cats, obs)
    elif test == 'resampled':
        dist, stat, status = ref_resampled(cats, obs, draws)
    else:
        dist, stat, status = ref_mll(cats, obs, draws)
    msgs = []
    if status is None:
        if res is not None:
            msgs.append('a result (status %r, quantile %r) was returned although the statistic is undefined' % (res.status, res.quantile))
    else:
        if res is None:
            msgs.append('no result returned, expected status %r' % status)
        else:
            if res.status != status:
                msgs.append('status %r, expected %r' % (res.status, status))
            if status != 'not-valid':
                if not _close(res.observed_statistic, stat):
                    msgs.append('observed statistic %r, documented definition gives %r' % (res.observed_statistic, stat))
                got = list(np.asarray(res.test_distribution, dtype=float))
                if len(got) != len(dist) or not all(_close(a, b) for a, b in zip(got, dist)):
                    msgs.append('test distribution %r, documented definition gives %r' % (got, dist))
                n = len(dist)
                if n:
                    q = (sum(1 for d in got if d >= res.observed_statistic) / n, sum(1 for d in got if d <= res.observed_statistic) / n)
                    if not (_close(res.quantile[0], q[0]) and _close(res.quantile[1], q[1])):
                        msgs.append('quantile %r, empirical probabilities %r' % (res.quantile, q))
    return bool(msgs), '%s test, synthetic %r observed %r draws %r: %s' % (test, cats, obs, draws, '; '.join(msgs) or 'matches the documented definition')


# ---- symbolic side -----------------------------------------------------------------------------------------------------------------

def jobs(tier, seed):
    out = []
    if tier == 'quick':
        cfg = [('pl', 2, 2, 1), ('spatial', 2, 2, 1), ('magnitude', 2, 1, 2), ('resampled', 2, 1, 2), ('mll', 2, 1, 2)]
    else:
        cfg = [('pl', 3, 2, 1), ('pl', 2, 2, 2), ('spatial', 3, 2, 1), ('spatial', 2, 2, 2), ('magnitude', 3, 1, 2), ('magnitude', 2, 1, 3),
               ('resampled', 3, 1, 2), ('resampled', 2, 1, 3), ('mll', 3, 1, 2), ('mll', 2, 2, 2)]
    for (t, J, nc, nm) in cfg:
        # split on "observation empty" / first observed bin active (parallelism only)
        for sp in ('empty', 'b0', 'nb0'):
            out.append({'name': '%s test J=%d %dx%d obs=%s' % (t, J, nc, nm, sp), 'test': t, 'J': J, 'nc': nc, 'nm': nm, 'split': sp, 'tier': tier,
                        'cost': (J * nc * nm) ** 2 * (1 if sp == 'empty' else 5), 'wall': 1200 if tier == 'quick' else 3400})
    # three cells: an under-sampled cell, a sampled cell holding observed events and a sampled cell without any
    for sp in ('b0', 'nb0'):
        out.append({'name': 'spatial test J=2 3x1 obs=%s' % sp, 'test': 'spatial', 'J': 2, 'nc': 3, 'nm': 1, 'split': sp, 'tier': tier, 'cmax': 1,
                    'cost': 400, 'wall': 1200 if tier == 'quick' else 3400})
        out.append({'name': 'pl test J=2 3x1 obs=%s' % sp, 'test': 'pl', 'J': 2, 'nc': 3, 'nm': 1, 'split': sp, 'tier': tier, 'cmax': 1,
                    'cost': 300, 'wall': 1200 if tier == 'quick' else 3400})
    out.append({'name': 'number test twice (catalogs changed in between)', 'test': 'number2', 'J': 2, 'nc': 1, 'nm': 1, 'split': 'b0', 'tier': tier, 'cost': 5, 'wall': 600})
    for n in ((2, 3) if tier == 'quick' else (2, 3, 4)):
        out.append({'name': 'lemma cumulative_square_diff n=%d' % n, 'test': 'lemma', 'which': 'csd', 'n': n, 'tier': tier, 'cost': 1, 'wall': 600})
    for (n, umax, hmax) in ([(2, 4, 2)] if tier == 'quick' else [(2, 6, 3), (3, 4, 2)]):
        out.append({'name': 'lemma MLL_score bins=%d' % n, 'test': 'lemma', 'which': 'mll', 'n': n, 'umax': umax, 'hmax': hmax, 'tier': tier,
                    'cost': 200, 'wall': 1200 if tier == 'quick' else 3400})
    return out


def run_job(job):
    snap = C.stats_snapshot()
    core.MODE['float'] = 'xr'
    core.OPT['lazy_bounds'] = True
    core.OPT['sum_dom'] = True
    res = _job_lemma(job) if job['test'] == 'lemma' else (_job_number2(job) if job['test'] == 'number2' else _job(job))
    res.update(C.stats_delta(snap))
    return res


class _Spec:
    """side constraints (eliminated divisions of the specification) and the quotients it introduced"""

    def __init__(self):
        self.side = []
        self.divs = []
        self.k = 0

    def div(self, num, den):
        q = z3.Real('sq!%d' % self.k)
        self.k += 1
        self.side.append(z3.Implies(den != 0, q * den == num))
        self.divs.append((q, num, den))
        return q

    def lemmas(self, code_divs):
        """a quotient is a function of (numerator, denominator): Ackermann lemmas between all recorded divisions"""
        alld = self.divs + list(code_divs)
        out = []
        for i in range(len(alld)):
            for j in range(i + 1, len(alld)):
                (q1, n1, d1), (q2, n2, d2) = alld[i], alld[j]
                out.append(z3.Implies(z3.And(n1 == n2, d1 == d2), q1 == q2))
        return out


def _job(job):
    test, J, nc, nm, tier = job['test'], job['J'], job['nc'], job['nm'], job['tier']
    L = C.twin()
    ce = L.load('csep.core.catalog_evaluations')
    forecasts = L.load('csep.core.forecasts')
    # assume-guarantee split for the magnitude tests: the two scoring kernels are replaced by opaque functions that record
    # their arguments (the kernels themselves are decided against their definitions in the 'lemma' jobs, for all inputs)
    def _opaque(name):
        def f(*a, **k):
            args = list(a) + [k[x] for x in sorted(k)]
            out = XR(z3.Real(core.fresh_name(name)))
            core.CTX.notes.setdefault('calls_' + name, []).append(([symnp.asarray(x) for x in args], out))
            return out
        return f
    if test in ('magnitude', 'resampled'):
        ce.cumulative_square_diff = _opaque('csd')
    if test == 'mll':
        ce.MLL_score = _opaque('mll')
    c = [[[z3.Int('c%d_%d_%d' % (j, i, k)) for k in range(nm)] for i in range(nc)] for j in range(J)]
    o = [[z3.Int('o_%d_%d' % (i, k)) for k in range(nm)] for i in range(nc)]
    flat_c = [x for cj in c for row in cj for x in row]
    flat_o = [x for row in o for x in row]
    cmax_j = job.get('cmax', CMAX)
    cons = [z3.And(x >= 0, x <= cmax_j) for x in flat_c + flat_o] + [z3.Sum(flat_c) > 0]
    tot_obs_max = 2 if tier == 'quick' else 3
    cons.append(z3.Sum(flat_o) <= tot_obs_max)
    if job['split'] == 'empty':
        cons.append(z3.Sum(flat_o) == 0)
    elif job['split'] == 'b0':
        cons.append(flat_o[0] > 0)
    else:
        cons += [flat_o[0] == 0, z3.Sum(flat_o) > 0]

    def run():
        for x in cons + F.axioms():
            core.assume(x)
        core.CTX.notes.setdefault('random', {'seed_calls': [], 'draws': []})['max_draws'] = 64
        reg, lat = F.small_region(L, nc)
        reg.magnitudes = symnp.asarray(np.array(F.MAGS[:nm]))
        reg.num_mag_bins = nm
        cats = [F.ObsStub(L, c[j], reg, CMAX, name='c%d' % j) for j in range(J)]
        fc = forecasts.CatalogForecast(catalogs=cats, region=reg, n_cat=J, name='cf')
        obs = F.ObsStub(L, o, reg, CMAX)
        fn = {'pl': ce.pseudolikelihood_test, 'spatial': ce.spatial_test, 'magnitude': ce.magnitude_test,
              'resampled': ce.resampled_magnitude_test, 'mll': ce.MLL_magnitude_test}[test]
        res = fn(fc, obs, verbose=False)
        if res is None:
            return None
        return res.status, res.observed_statistic, res.test_distribution, res.quantile
    paths, trunc = core.explore(run, max_paths=6000)
    TO = 120 if tier == 'quick' else 600

    # integer summaries
    s = [[z3.Sum(c[j][i]) for i in range(nc)] for j in range(J)]                # spatial counts per catalog
    m = [[z3.Sum([c[j][i][k] for i in range(nc)]) for k in range(nm)] for j in range(J)]   # magnitude counts per catalog
    N = [z3.Sum(s[j]) for j in range(J)]
    so = [z3.Sum(o[i]) for i in range(nc)]
    mo = [z3.Sum([o[i][k] for i in range(nc)]) for k in range(nm)]
    No = z3.Sum(so)
    su = [z3.Sum([s[j][i] for j in range(J)]) for i in range(nc)]
    mu = [z3.Sum([m[j][k] for j in range(J)]) for k in range(nm)]
    NU = z3.Sum(N)
    log, log10, lg = core.uf('log'), core.uf('log10'), core.uf('lgamma')
    lam = [z3.ToReal(su[i]) / J for i in range(nc)]
    nbar = z3.Sum(lam)
    cm_sp = CMAX * nm
    cm_mag = CMAX * nc

    def draws_of(P):
        return [v for (tag, v) in P.notes.get('random', {}).get('draws', []) if tag == 'choice']

    def cexf(mod, P):
        cc = [[[core.int_from_model(mod, x) for x in row] for row in cj] for cj in c]
        oo = [[core.int_from_model(mod, x) for x in row] for row in o]
        n_obs = sum(sum(r) for r in oo)
        dr = [core.int_from_model(mod, d.t) for d in draws_of(P)]
        per = [dr[i * n_obs:(i + 1) * n_obs] for i in range(J)] if n_obs else []
        return {'test': test, 'cats': cc, 'obs': oo, 'draws': per}

    def xr_is(a, val):
        a = core.R(a)
        return z3.And(a.fin(), a.v == val)

    def quantile_ok(q, dist, stat):
        n = len(dist)
        if n == 0:
            return z3.BoolVal(True)         # the empirical probabilities of an empty distribution are undefined
        from .C09 import _count_eq, _rt
        st = core.R(stat).v
        dv = [core.R(d).v for d in dist]
        return z3.And(_count_eq(_rt(q[0]), [d >= st for d in dv], n), _count_eq(_rt(q[1]), [d <= st for d in dv], n))

    def match_skipping(dist, present, values):
        """dist (list of XR) == [values[j] for j if present[j]] in order"""
        mlen = len(dist)
        ok = [z3.Sum([z3.If(p, 1, 0) for p in present]) == mlen]
        for j in range(len(present)):
            pos = z3.Sum([z3.If(present[jj], 1, 0) for jj in range(j)] + [z3.IntVal(0)])
            for p in range(mlen):
                ok.append(z3.Implies(z3.And(present[j], pos == p), xr_is(dist[p], values[j])))
        return z3.And(ok)

    def vio(P):
        sp = _Spec()
        code_divs = P.notes.get('_divs', [])
        good = None
        if test == 'pl':
            def pl(g):
                return z3.Sum([F.imul(g[i], log(lam[i]), cm_sp * J) for i in range(nc)]) - nbar
            bad_cell = z3.Or([z3.And(so[i] > 0, su[i] == 0) for i in range(nc)])
            g2 = [z3.If(su[i] > 0, so[i], 0) for i in range(nc)]
            n2 = z3.Sum(g2)
            undefined = z3.Or(No == 0, z3.And(bad_cell, n2 == 0))
            if P.value is None:
                good = undefined
            else:
                status, stat, dist, q = P.value
                ok = [z3.Not(undefined), z3.BoolVal(len(dist) == J)]
                for j in range(min(J, len(dist))):
                    ok.append(xr_is(dist[j], pl(s[j])))
                ok.append(z3.If(bad_cell, z3.And(z3.BoolVal(status == 'undersampled'), xr_is(stat, pl(g2))),
                                z3.And(z3.BoolVal(status == 'normal'), xr_is(stat, pl(so)))))
                ok.append(quantile_ok(q, dist, stat))
                good = z3.And(ok)
        elif test == 'spatial':
            tot = z3.Sum(lam)
            qn = [sp.div(lam[i], tot) for i in range(nc)]

            def S(g, n):
                return sp.div(z3.Sum([F.imul(g[i], log(qn[i]), cm_sp * J) for i in range(nc)]), z3.ToReal(n))
            bad_cell = z3.Or([z3.And(so[i] > 0, su[i] == 0) for i in range(nc)])
            g2 = [z3.If(su[i] > 0, so[i], 0) for i in range(nc)]
            n2 = z3.Sum(g2)
            invalid = z3.Or(No == 0, z3.And(bad_cell, n2 == 0))
            if P.value is None:
                good = z3.BoolVal(False)
            else:
                status, stat, dist, q = P.value
                dl = list(dist.a.reshape(-1)) if isinstance(dist, symnp.SArr) else list(dist)
                # with an empty observation every entry is undefined (the status says so); otherwise one entry per non-empty catalog
                ok = [z3.Implies(No > 0, match_skipping(dl, [N[j] > 0 for j in range(J)], [S(s[j], N[j]) for j in range(J)]))]
                ok.append(z3.If(invalid, z3.BoolVal(status == 'not-valid'),
                                z3.If(bad_cell, z3.And(z3.BoolVal(status == 'undersampled'), xr_is(stat, S(g2, n2))),
                                      z3.And(z3.BoolVal(status == 'normal'), xr_is(stat, S(so, No))))))
                ok.append(z3.Implies(z3.Not(invalid), quantile_ok(q, dl, stat)))
                good = z3.And(ok)
        else:
            if P.value is None:
                good = z3.BoolVal(False)
            else:
                status, stat, dist, q = P.value
                if status == 'not-valid':
                    good = z3.And(No == 0, z3.BoolVal(stat is None and tuple(q) == (None, None)))
                else:
                    dl = list(dist)
                    ok = [No > 0, z3.BoolVal(status == 'normal')]

                    def arr_is(a, vals):
                        el = list(a.a.reshape(-1))
                        if len(el) != len(vals):
                            return z3.BoolVal(False)
                        return z3.And([xr_is(e, v) for e, v in zip(el, vals)])

                    def same_sym(x, out):
                        x = core.R(x)
                        return z3.And(x.fin(), x.v == out.v)
                    if test in ('magnitude', 'resampled'):
                        calls = P.notes.get('calls_csd', [])
                        # mean magnitude rates of the forecast, scaled to the observed number of events
                        mean_k = [z3.ToReal(mu[k]) / J for k in range(nm)]
                        qU = sp.div(z3.ToReal(No), z3.Sum(mean_k))
                        union_in = [log10(mean_k[k] * qU + 1) for k in range(nm)]

                        def hist_in(h, scale):
                            return [log10((F.imul(h[k], scale, cm_mag * J) if scale is not None else z3.ToReal(h[k])) + 1) for k in range(nm)]

                        def call_is(p, h, scale):
                            if p >= len(calls):
                                return z3.BoolVal(False)
                            (a1, a2), out = calls[p]
                            return z3.And(arr_is(a1, hist_in(h, scale)), arr_is(a2, union_in))
                        if not calls or len(calls) != len(dl) + 1:
                            ok.append(z3.BoolVal(False))
                        else:
                            ok.append(z3.And(call_is(len(calls) - 1, mo, None), same_sym(stat, calls[-1][1])))
                            for p in range(len(dl)):
                                ok.append(same_sym(dl[p], calls[p][1]))
                            if test == 'magnitude':
                                present = [N[j] > 0 for j in range(J)]
                                ok.append(z3.Sum([z3.If(pp, 1, 0) for pp in present]) == len(dl))
                                for j in range(J):
                                    pos = z3.Sum([z3.If(present[jj], 1, 0) for jj in range(j)] + [z3.IntVal(0)])
                                    for p in range(len(dl)):
                                        ok.append(z3.Implies(z3.And(present[j], pos == p), call_is(p, m[j], sp.div(z3.ToReal(No), z3.ToReal(N[j])))))
                            else:
                                hs = _resampled_hists(P)
                                if hs is None or len(hs[0]) != len(dl):
                                    ok.append(z3.BoolVal(False))
                                else:
                                    ok += hs[1]
                                    for p, h in enumerate(hs[0]):
                                        ok.append(call_is(p, h, None))
                    else:
                        calls = P.notes.get('calls_mll', [])
                        hs = _resampled_hists(P)
                        if hs is None or len(calls) != J + 1 or len(dl) != J:
                            ok.append(z3.BoolVal(False))
                        else:
                            ok += hs[1]

                            def call_is(p, h):
                                (a1, a2), out = calls[p]          # keyword order: catalog_counts, union_catalog_counts
                                return z3.And(arr_is(a1, [z3.ToReal(x) for x in h]), arr_is(a2, [z3.ToReal(x) for x in mu]))
                            ok.append(z3.And(call_is(0, mo), same_sym(stat, calls[0][1])))
                            for p, h in enumerate(hs[0]):
                                ok.append(z3.And(call_is(p + 1, h), same_sym(dl[p], calls[p + 1][1])))
                    ok.append(quantile_ok(q, dl, stat))
                    good = z3.And(ok)
        base = z3.And(*(sp.side + sp.lemmas(code_divs) + [z3.Not(good)]))
        if test in ('pl', 'spatial', 'mll') or P.value is None or P.value[0] == 'not-valid':
            return [('%s test equals its documented definition' % test, base)]
        # cube-and-conquer on the event totals (N_obs, N_1..N_J): inside a cube every quotient of totals is a constant, which
        # keeps the arithmetic linear; the cubes partition the whole bounded domain, so all of them unsat = unsat
        import itertools
        nmax = CMAX * nc * nm
        cubes = []
        for no in range(1, tot_obs_max + 1):
            for ns in itertools.product(range(nmax + 1), repeat=J):
                if sum(ns) == 0:
                    continue
                cubes.append(z3.And([No == no] + [N[j] == ns[j] for j in range(J)]))
        return [('%s test equals its documented definition' % test, z3.And(base, cb)) for cb in cubes]

    def _resampled_hists(P):
        """every synthetic catalog contributes one resampled histogram of exactly N_obs draws, each drawn from a magnitude bin
        that the union catalog populates -> ([histogram per catalog], [side conditions]) or None"""
        dr = draws_of(P)
        if len(dr) % J:
            return None
        per = len(dr) // J
        ok = [No == per]
        hs = []
        for j in range(J):
            mine = dr[j * per:(j + 1) * per]
            hs.append([z3.Sum([z3.If(d.t == k, 1, 0) for d in mine] + [z3.IntVal(0)]) for k in range(nm)])
            for d in mine:
                ok.append(z3.And([z3.Implies(d.t == k, mu[k] > 0) for k in range(nm)]))
        return hs, ok
    obs_l = C.path_obligations(paths, vio, cexf, replay, '%s test' % test, TO, candidate_only=True)
    from .C16 import _aggregate
    out = _aggregate(obs_l, paths, trunc)
    okp = [P for P in paths if P.kind == 'ok' and P.value is not None] or [P for P in paths if P.kind == 'ok']
    if okp:
        def chk(mod):
            bad, d = replay(cexf(mod, okp[-1]))
            return (not bad), d
        out.append(C.reach_obligation(okp[-1], chk))
    return {'obligations': [x.as_dict() for x in out],
            'samples': [{'test': test, 'J': J, 'cells': nc, 'magnitude bins': nm, 'counts': 'symbolic 0..%d' % CMAX, 'paths': len(paths)}]}


# ---- lemmas: the two scoring kernels against their definitions, for all inputs ------------------------------------------------------

def _job_lemma(job):
    L = C.twin()
    stats = L.load('csep.utils.stats')
    n = job['n']
    TO = 120 if job['tier'] == 'quick' else 900
    out = []
    if job['which'] == 'csd':
        a = [z3.Real('a%d' % k) for k in range(n)]
        b = [z3.Real('b%d' % k) for k in range(n)]

        def run():
            return stats.cumulative_square_diff(symnp.asarray([XR(x) for x in a]), symnp.asarray([XR(x) for x in b]))
        paths, trunc = core.explore(run)

        def vio(P):
            r = core.R(P.value)
            return z3.Not(z3.And(r.fin(), r.v == z3.Sum([(b[k] - a[k]) * (b[k] - a[k]) for k in range(n)])))

        def cexf(mod, P):
            return {'lemma': 'csd', 'a': [float(core.real_from_model(mod, x)) for x in a], 'b': [float(core.real_from_model(mod, x)) for x in b]}
        obs = C.path_obligations(paths, vio, cexf, _replay_lemma, 'cumulative_square_diff == sum of squared differences (n=%d)' % n, TO)
        okp = [P for P in paths if P.kind == 'ok']
        if okp:
            obs.append(C.reach_obligation(okp[0], lambda mod: _replay_lemma(cexf(mod, okp[0]), want_ok=True)))
        return {'obligations': [o.as_dict() for o in obs], 'samples': [{'lemma': 'cumulative_square_diff', 'n': n, 'inputs': 'symbolic reals'}]}
    # MLL_score
    umax, hmax = job['umax'], job['hmax']
    u = [z3.Int('u%d' % k) for k in range(n)]
    h = [z3.Int('h%d' % k) for k in range(n)]
    log, lg = core.uf('log'), core.uf('lgamma')

    def arr(v, hi):
        a = np.empty(len(v), dtype=object)
        for i, x in enumerate(v):
            a[i] = core.R(SInt(x, dom=(0, hi)))
        return symnp.SArr(a, core.DT64)

    def run():
        for x in u:
            core.assume(z3.And(x >= 0, x <= umax))
        for x in h:
            core.assume(z3.And(x >= 0, x <= hmax))
        core.assume(z3.Sum(u) > 0)
        core.assume(z3.Sum(h) > 0)
        return stats.MLL_score(union_catalog_counts=arr(u, umax), catalog_counts=arr(h, hmax))
    paths, trunc = core.explore(run, max_paths=200)

    def cexf(mod, P):
        return {'lemma': 'mll', 'u': [core.int_from_model(mod, x) for x in u], 'h': [core.int_from_model(mod, x) for x in h]}

    def vio(P):
        sp = _Spec()
        NU, NH = z3.Sum(u), z3.Sum(h)

        def logd(x):
            tot = z3.Sum(x)
            return lg(tot + 1) + z3.Sum([xi * log(sp.div(xi, tot)) - lg(xi + 1) for xi in x])
        ratio = sp.div(z3.ToReal(NU), z3.ToReal(NH))
        um = [z3.ToReal(u[k]) + ratio for k in range(n)]
        cmod = [z3.ToReal(h[k]) + 1 for k in range(n)]
        mg = [um[k] + cmod[k] for k in range(n)]
        spec = 2 * (logd(mg) - logd(um) - logd(cmod))
        r = core.R(P.value)
        base = z3.And(*(sp.side + sp.lemmas(P.notes.get('_divs', [])) + [z3.Not(z3.And(r.fin(), r.v == spec))]))
        cubes = []
        for a in range(1, umax * n + 1):
            for b in range(1, hmax * n + 1):
                cubes.append(('MLL_score == 2*(logL(merged) - logL(union) - logL(catalog)) [N_u=%d, N_j=%d]' % (a, b), z3.And(base, NU == a, NH == b)))
        return cubes
    obs = C.path_obligations(paths, vio, cexf, _replay_lemma, 'MLL_score', TO, candidate_only=True)
    from .C16 import _aggregate
    agg = {}
    out = [o for o in obs if o.status != 'unsat'][:6]
    n_uns = sum(1 for o in obs if o.status == 'unsat')
    out.append(Obligation('MLL_score equals the multinomial log-likelihood ratio of its docstring, %d bins, union counts 0..%d, catalog counts 0..%d '
                          '(%d cubes over the totals)' % (n, umax, hmax, len(obs)), 'unsat' if n_uns == len(obs) and not trunc else 'unknown',
                          sum(o.time_s for o in obs)))
    okp = [P for P in paths if P.kind == 'ok']
    if okp:
        def chk(mod):
            bad, d = _replay_lemma(cexf(mod, okp[0]))
            return (not bad), d
        out.append(C.reach_obligation(okp[0], chk))
    return {'obligations': [o.as_dict() for o in out], 'samples': [{'lemma': 'MLL_score', 'bins': n, 'paths': len(paths)}]}


def _replay_lemma(cex, want_ok=False):
    C.real_csep()
    from csep.utils import stats
    if cex['lemma'] == 'csd':
        got = float(stats.cumulative_square_diff(np.array(cex['a']), np.array(cex['b'])))
        want = sum((y - x) ** 2 for x, y in zip(cex['a'], cex['b']))
        bad = not _close(got, want)
        d = 'cumulative_square_diff(%r, %r) = %r, definition %r' % (cex['a'], cex['b'], got, want)
        return ((not bad), d) if want_ok else (bad, d)
    u, h = cex['u'], cex['h']
    with np.errstate(all='ignore'):
        got = float(stats.MLL_score(union_catalog_counts=np.array(u, dtype=float), catalog_counts=np.array(h, dtype=float)))
    nu, nh = sum(u), sum(h)
    um = [x + nu / nh for x in u]
    cm = [x + 1 for x in h]
    mg = [a + b for a, b in zip(um, cm)]
    want = 2 * (_logd(mg) - _logd(um) - _logd(cm))
    bad = not _close(got, want)
    return bad, 'MLL_score(union %r, catalog %r) = %r, docstring definition %r' % (u, h, got, want)


def _job_number2(job):
    """catalog N-test run twice on one forecast whose catalogs are changed in between (the workflow of repeating the test at a
    higher magnitude threshold): each result must describe the catalogs as they are when the test runs"""
    L = C.twin()
    ce = L.load('csep.core.catalog_evaluations')
    forecasts = L.load('csep.core.forecasts')
    J = job['J']
    a = [z3.Int('a%d' % j) for j in range(J)]
    b = [z3.Int('b%d' % j) for j in range(J)]
    n1, n2 = z3.Int('n1'), z3.Int('n2')

    class Cat:
        def __init__(self, t):
            self.t = t
            self.name = 'c'
            self.region = None

        @property
        def event_count(self):
            return SInt(self.t)

        def get_number_of_events(self):
            return SInt(self.t)

        def __str__(self):
            return 'cat'

    def run():
        for x in a + b + [n1, n2]:
            core.assume(z3.And(x >= 0, x <= 5))
        cats = [Cat(a[j]) for j in range(J)]
        fc = forecasts.CatalogForecast(catalogs=cats, n_cat=J, name='cf')
        fc.region = None
        r1 = ce.number_test(_MinMag(fc), Cat(n1), verbose=False)
        for j in range(J):
            cats[j].t = b[j]          # the user filters the synthetic catalogs in place (e.g. raises the magnitude threshold)
        r2 = ce.number_test(_MinMag(fc), Cat(n2), verbose=False)
        return (r1.test_distribution, r1.observed_statistic, r1.quantile), (r2.test_distribution, r2.observed_statistic, r2.quantile)
    paths, trunc = core.explore(run, max_paths=500)
    from .C09 import _count_eq, _rt

    def cexf(mod, P):
        return {'test': 'number2', 'a': [core.int_from_model(mod, x) for x in a], 'b': [core.int_from_model(mod, x) for x in b],
                'n1': core.int_from_model(mod, n1), 'n2': core.int_from_model(mod, n2)}

    def vio(P):
        ok = []
        for (dist, stat, q), sizes, n in ((P.value[0], a, n1), (P.value[1], b, n2)):
            dl = list(dist) if not isinstance(dist, symnp.SArr) else list(dist.a.reshape(-1))
            ok.append(z3.BoolVal(len(dl) == J))
            for d, c in zip(dl, sizes):
                ok.append(core.R(d).v == z3.ToReal(c))
            ok.append(core.R(stat).v == z3.ToReal(n))
            ok.append(_count_eq(_rt(q[0]), [c >= n for c in sizes], J))
            ok.append(_count_eq(_rt(q[1]), [c <= n for c in sizes], J))
        return z3.Not(z3.And(ok))
    obs = C.path_obligations(paths, vio, cexf, _replay_number2, 'both N-test results describe the catalogs at the time of the call', 60)
    from .C16 import _aggregate
    out = _aggregate(obs, paths, trunc)
    okp = [P for P in paths if P.kind == 'ok']
    if okp:
        def chk(mod):
            bad, d = _replay_number2(cexf(mod, okp[0]))
            return (not bad), d
        out.append(C.reach_obligation(okp[0], chk))
    return {'obligations': [o.as_dict() for o in out], 'samples': [{'test': 'number test twice', 'J': J, 'sizes': 'symbolic 0..5', 'paths': len(paths)}]}


class _MinMag:
    """forecast proxy that answers min_magnitude without a region (the N-test only labels its result with it)"""
    def __init__(self, fc):
        self._fc = fc

    min_magnitude = 5.0

    def __iter__(self):
        return iter(self._fc)

    def __getattr__(self, k):
        return getattr(self._fc, k)


def _replay_number2(cex):
    import io
    import contextlib
    C.real_csep()
    from csep.core import forecasts, catalog_evaluations as ce
    from csep.core.catalogs import CSEPCatalog
    reg, _, _ = None, None, None
    fc0, _, mags = _real_setup([[[0]], [[0]]], [[0]])
    region = fc0.region

    def cat(n, name='c'):
        return CSEPCatalog(data=[('e%d' % i, i, 40.25, 10.25, 10.0, 5.5 if i < n else 4.0) for i in range(5)], region=region, name=name)
    a, b = cex['a'], cex['b']
    # catalog j holds 5 events of which max(a_j, b_j) ... the second state is reached by an in-place magnitude filter
    msgs = []
    with contextlib.redirect_stdout(io.StringIO()):
        cats = []
        for j in range(len(a)):
            data = [('e%d' % i, i, 40.25, 10.25, 10.0, 6.0 if i < min(a[j], b[j]) else 5.0) for i in range(a[j])]
            cats.append(CSEPCatalog(data=data, region=region, name='c%d' % j))
        fc = forecasts.CatalogForecast(catalogs=cats, region=region, n_cat=len(a), name='cf')
        obs1 = CSEPCatalog(data=[('o%d' % i, i, 40.25, 10.25, 10.0, 6.0) for i in range(cex['n1'])], region=region)
        r1 = ce.number_test(fc, obs1, verbose=False)
        if list(r1.test_distribution) != a:
            msgs.append('first N-test distribution %r, catalog sizes %r' % (list(r1.test_distribution), a))
        shrink = all(y <= x for x, y in zip(a, b))
        if shrink:
            for c in cats:
                c.filter('magnitude >= 5.5')
            want = [min(x, y) for x, y in zip(a, b)]
            r2 = ce.number_test(fc, obs1, verbose=False)
            if list(r2.test_distribution) != want:
                msgs.append('second N-test (after filtering the catalogs in place) distribution %r, catalog sizes now %r' % (list(r2.test_distribution), want))
    return bool(msgs), 'sizes %r then %r: %s' % (a, b, '; '.join(msgs) or 'each N-test describes the current catalogs')
