"""C06 -- simulated catalogs: exact inverse-CDF, conserved counts, quantile, seeds (DESIGN 4/C06)."""
import math

import numpy as np
import z3

from symx import core, symnp
from symx.core import XR, SInt, SFP, F64, fpconst
from symx.harness import Obligation
from . import common as C
from . import evalfix as F

ID = 'C06'
KNOWN_KEYS = {
    'pairwise-sum-below-one': 'n >= 8 rates: cumsum[-1]/numpy.sum(rates) can be 1-2^-53, so a uniform draw in '
                              '[w_last, 1) indexes past the last bin (IndexError in _simulate_catalog)',
}
META = {
    'functions': ['csep/core/poisson_evaluations.py _simulate_catalog', 'csep/core/poisson_evaluations.py _poisson_likelihood_test',
                  'csep/core/binomial_evaluations.py _simulate_catalog', 'csep/core/binomial_evaluations.py _binary_likelihood_test',
                  'csep/core/brier_evaluations.py _simulate_catalog', 'csep/core/brier_evaluations.py _brier_score_test',
                  'csep/core/catalog_evaluations.py resampled_magnitude_test (seed handling)',
                  'csep/core/catalog_evaluations.py MLL_magnitude_test (seed handling)',
                  'public Poisson / binary / Brier test functions (seed and count handling)'],
    'theory': 'two encodings: (i) QF_BVFP bit-exact float64 for the sampling weights cumsum(rates)/sum(rates) (numpy.sum '
              'pairwise for n >= 8, cumsum sequential) and the binary search; (ii) reals/ints for placement given weights, '
              'event counts, quantile and seed handling',
    'bounds': {'quick': 'placement step: n <= 5 bins, <= 3 draws, arbitrary weights satisfying the invariant; weights invariant in '
                        'FP64: n = 3 (all symbolic), n = 8 (5 concrete + 3 symbolic rates); public tests 2x2 bins, 1-2 simulations; '
                        'seeds 0..2',
               'thorough': 'n = 4 FP64 monolithic, n = 8/9 with more symbolic rates'},
    'outside': ['n > 9 bins in the FP64 claims (blocked summation beyond 128 elements not modelled)',
                'statistical quality of numpy random generator', 'more draws than the bound in the rejection loop'],
    'stubs': ['IEEE-754 lemma (trusted, not re-proved): correctly rounded division by a positive divisor is monotone; used to reduce '
              'weight monotonicity to numerator monotonicity when all weights share one divisor',
              'numpy.random.rand/uniform: arbitrary values in [0,1); poisson: arbitrary small integer >= 0; seed(s) records s, '
              'draws are a function of (last seed, draw index)'],
    'assumptions': ['rates >= 0 (FP64 claims: each rate 0 or in [1e-12, 1e3]), at least one positive'],
}


# ---- replay ------------------------------------------------------------------------------------------------

def replay(cex):
    C.real_csep()
    from csep.core import poisson_evaluations as pe, binomial_evaluations as be, brier_evaluations as br
    k = cex['kind']
    if k == 'pois_place':
        rates = np.array(cex['rates'], dtype=float)
        us = np.array(cex['u'], dtype=float)
        w = _real_weights(rates)
        sim = np.zeros(w.shape)
        try:
            out = pe._simulate_catalog(len(us), w, sim, random_numbers=us)
        except Exception as e:
            return True, '_simulate_catalog raised %r for rates %r, u=%r (last weight %r)' % (e, cex['rates'], cex['u'], w[-1])
        msgs = _placement_msgs(rates.ravel(), w, us, out)
        return bool(msgs), '; '.join(msgs) or 'placement agrees'
    if k == 'step':
        w = np.array(cex['w'], dtype=float)
        us = np.array(cex['u'], dtype=float)
        sim = np.zeros(w.shape)
        try:
            out = pe._simulate_catalog(len(us), w, sim, random_numbers=us)
        except Exception as e:
            return True, '_simulate_catalog raised %r for weights %r, u=%r' % (e, cex['w'], cex['u'])
        exp = np.zeros(len(w))
        for u in us:
            kk = sum(1 for x in w if x <= u)
            if kk >= len(w):
                return True, 'no bin for u=%r' % u
            exp[kk] += 1
        bad = not np.array_equal(out, exp)
        return bad, 'weights %r u %r: simulated %r, inverse-CDF placement %r' % (cex['w'], cex['u'], out.tolist(), exp.tolist())
    if k == 'seed':
        import csep
        fn = cex['fn']
        s = cex['seed']
        outs = []
        for pre in (11, 22, 33, 44, 55, 66):
            np.random.seed(pre)
            outs.append(_call_public(fn, s))
        same = all(_same_result(outs[0], o) for o in outs[1:])
        return (not same), '%s(seed=%r) run twice after different global RNG states: %s' % (fn, s, 'identical' if same else 'DIFFERENT results')
    if k == 'binplace':
        rates = np.array(cex['rates'], dtype=float)
        mod = be if cex['which'] == 'binary' else br
        fd = np.ma.masked_where(rates <= 0.0, rates)
        w = np.cumsum(fd.ravel()) / np.sum(fd)
        us = list(cex['u'])
        it = iter(us)
        saved = np.random.uniform
        np.random.uniform = lambda a=0, b=1, size=None: next(it)
        try:
            if cex['which'] == 'binary':
                out = mod._simulate_catalog(cex['cells'], w, np.zeros(w.shape))
            else:
                out = mod._simulate_catalog(cex['cells'], w)
        except StopIteration:
            return False, 'needs more draws than the model used'
        except Exception as e:
            return True, '%s._simulate_catalog raised %r (rates %r, draws %r)' % (cex['which'], e, cex['rates'], us)
        finally:
            np.random.uniform = saved
        msgs = []
        for i, (c, l) in enumerate(zip(np.asarray(out).ravel(), rates.ravel())):
            if c > 0 and l == 0:
                msgs.append('event placed in zero-rate bin %d' % i)
        cw = np.cumsum(np.where(rates > 0, rates, 0).ravel()) / np.sum(np.where(rates > 0, rates, 0))
        exp = np.zeros(len(cw))
        for u in us:
            kk = sum(1 for x in cw if x <= u)
            if kk < len(cw):
                exp[kk] = 1
        if not msgs and not np.array_equal(np.asarray(out).ravel() > 0, exp > 0):
            msgs.append('active cells %r, inverse-CDF of the draws gives %r' % ((np.asarray(out).ravel() > 0).tolist(), (exp > 0).tolist()))
        if np.asarray(out).sum() != cex['cells']:
            msgs.append('number of active cells %r != %r' % (np.asarray(out).sum(), cex['cells']))
        return bool(msgs), ('rates %r draws %r: ' % (cex['rates'], us)) + ('; '.join(msgs) or 'placement agrees')
    if k == 'inject':
        rates = np.array(cex['rates'], dtype=float)
        counts = np.array(cex['counts'], dtype=float)
        rn = np.array(cex['rn'], dtype=float)
        try:
            if cex['which'] == 'binary':
                be._binary_likelihood_test(rates, counts, num_simulations=len(rn), random_numbers=rn, verbose=False)
            elif cex['which'] == 'brier':
                br._brier_score_test(rates, counts, num_simulations=len(rn), random_numbers=rn, verbose=False)
            else:
                pe._poisson_likelihood_test(rates, counts, num_simulations=len(rn), random_numbers=rn, verbose=False)
        except Exception as e:
            return True, '%s test with injected random numbers %r raised %r (rates %r counts %r)' % (cex['which'], cex['rn'], e, cex['rates'], cex['counts'])
        return False, 'no exception'
    if k == 'quant':
        return _replay_quant(cex)
    if k == 'count':
        return False, 'count clause is decided on the symbolic run only'
    raise ValueError(k)


def _placement_msgs(rates, w, us, out):
    msgs = []
    n = len(w)
    exp = np.zeros(n)
    for u in us:
        kk = sum(1 for x in w if x <= u)
        if kk >= n:
            msgs.append('u=%r is not below the last weight %r' % (u, w[-1]))
            continue
        exp[kk] += 1
        if rates[kk] == 0:
            msgs.append('u=%r falls in zero-rate bin %d' % (u, kk))
    if not np.array_equal(out, exp):
        msgs.append('simulated %r, inverse-CDF placement %r' % (np.asarray(out).tolist(), exp.tolist()))
    return msgs


def _public_fixture():
    from . import C05
    fore, cat = C05._real_setup([[0.5, 0.25], [1.0, 0.125]], [[1, 0], [0, 1]])
    return fore, cat


def _call_public(fn, seed):
    from csep.core import poisson_evaluations as pe, binomial_evaluations as be, brier_evaluations as br, catalog_evaluations as ce
    fore, cat = _public_fixture()
    if fn in ('likelihood_test', 'conditional_likelihood_test', 'spatial_test', 'magnitude_test'):
        r = getattr(pe, fn)(fore, cat, num_simulations=8, seed=seed)
    elif fn in ('binary_spatial_test', 'binary_conditional_likelihood_test'):
        r = getattr(be, fn)(fore, cat, num_simulations=8, seed=seed)
    elif fn == 'brier_score_test':
        r = br.brier_score_test(fore, cat, num_simulations=8, seed=seed)
    else:
        from csep.core.forecasts import CatalogForecast
        from csep.core.catalogs import CSEPCatalog
        reg = fore.region
        cats = []
        for j in range(3):
            ev = [('s%d' % j, 0, 40.25, 10.25 + 0.5 * (j % 2), 5.0, 5.5 + (j % 2))]
            cats.append(CSEPCatalog(data=ev, region=reg, catalog_id=j))
        cf = CatalogForecast(catalogs=cats, region=reg, n_cat=3, name='cf')
        r = getattr(ce, fn)(cf, cat, seed=seed)
    return (list(np.atleast_1d(np.asarray(r.test_distribution, dtype=float))), r.quantile, r.observed_statistic)


def _same_result(a, b):
    return np.array_equal(np.array(a[0]), np.array(b[0]), equal_nan=True) and a[1] == b[1]


# ---- jobs --------------------------------------------------------------------------------------------------

SEED_FNS = ['likelihood_test', 'conditional_likelihood_test', 'spatial_test', 'magnitude_test', 'binary_spatial_test',
            'binary_conditional_likelihood_test', 'brier_score_test', 'resampled_magnitude_test', 'MLL_magnitude_test']


def jobs(tier, seed):
    out = []
    for n in ((3, 5) if tier == 'quick' else (3, 4, 5, 6)):
        out.append({'name': 'poisson placement step n=%d' % n, 'kind': 'step', 'n': n, 'draws': 2 if n > 4 else 3, 'cost': 5})
    # monolithic (weights + binary search + add.at, all in FP64) for tiny n; invariant-only for n >= 8, where the
    # placement given the invariant is the 'step' claim above
    out.append({'name': 'poisson weights+placement FP64 n=3 (2 symbolic)', 'kind': 'wfp', 'n': 3, 'nsym': 2, 'asserts': True, 'cost': 60})
    out.append({'name': 'poisson weights invariant FP64 n=4', 'kind': 'wfp', 'n': 4, 'nsym': 4, 'asserts': False, 'cost': 30})
    out.append({'name': 'poisson weights invariant FP64 n=8 (4 symbolic)', 'kind': 'wfp', 'n': 8, 'nsym': 4, 'asserts': False, 'cost': 60})
    out.append({'name': 'poisson weights invariant FP64 n=9 (3 symbolic)', 'kind': 'wfp', 'n': 9, 'nsym': 3, 'asserts': False, 'cost': 60})
    if tier == 'thorough':
        out.append({'name': 'poisson weights+placement FP64 n=3', 'kind': 'wfp', 'n': 3, 'nsym': 3, 'asserts': True, 'cost': 100})
        out.append({'name': 'poisson weights+placement FP64 n=4', 'kind': 'wfp', 'n': 4, 'nsym': 4, 'asserts': True, 'cost': 100})
        out.append({'name': 'poisson weights invariant FP64 n=9 (9 symbolic)', 'kind': 'wfp', 'n': 9, 'nsym': 9, 'asserts': False, 'cost': 100})
        out.append({'name': 'poisson weights invariant FP64 n=8 (8 symbolic)', 'kind': 'wfp', 'n': 8, 'nsym': 8, 'asserts': False, 'cost': 100})
    for t in ('L', 'CL', 'S', 'M'):
        out.append({'name': 'poisson %s-test counts and quantile' % t, 'kind': 'count', 'test': t, 'cost': 30})
    for which in ('poisson', 'binary', 'brier'):
        out.append({'name': '%s quantile over free statistics' % which, 'kind': 'quant', 'which': which, 'cost': 10})
    for fn in SEED_FNS:
        out.append({'name': 'seed handling %s' % fn, 'kind': 'seed', 'fn': fn, 'cost': 2})
    for which in ('binary', 'brier'):
        out.append({'name': '%s placement with zero-rate bins n=3' % which, 'kind': 'binplace', 'which': which, 'n': 3, 'cost': 20})
        out.append({'name': '%s injected random numbers, 2 simulations' % which, 'kind': 'inject', 'which': which, 'cost': 10})
    out.append({'name': 'poisson injected random numbers, 2 simulations', 'kind': 'inject', 'which': 'poisson', 'cost': 10})
    for j in out:
        j['tier'] = tier
        j['wall'] = 600 if tier == 'quick' else 3400
    return out


def run_job(job):
    snap = C.stats_snapshot()
    res = globals()['_job_' + job['kind']](job)
    res.update(C.stats_delta(snap))
    return res


def _agg(obs, paths, trunc):
    from .C16 import _aggregate
    return _aggregate(obs, paths, trunc)


def _job_step(job):
    """for ARBITRARY weights satisfying the invariant (non-decreasing, in [0,1], last = 1) and every u in [0,1):
    the real _simulate_catalog puts each event in the bin whose interval [w_(k-1), w_k) contains its number"""
    core.MODE['float'] = 'xr'
    core.OPT['lazy_bounds'] = True
    L = C.twin()
    pe = L.load('csep.core.poisson_evaluations')
    n, nd = job['n'], job['draws']
    ws = [z3.Real('w%d' % i) for i in range(n)]
    us = [z3.Real('u%d' % i) for i in range(nd)]

    def run():
        prev = z3.RealVal(0)
        for w in ws:
            core.assume(z3.And(w >= prev, w <= 1))
            prev = w
        core.assume(ws[-1] == 1)
        for u in us:
            core.assume(z3.And(u >= 0, u < 1))
        W = symnp.asarray([XR(w) for w in ws])
        sim = symnp.zeros(n)
        return pe._simulate_catalog(nd, W, sim, random_numbers=symnp.asarray([XR(u) for u in us]))
    paths, trunc = core.explore(run, max_paths=2000)

    def cexf(mod, P):
        return {'kind': 'step', 'w': [float(core.real_from_model(mod, w)) for w in ws], 'u': [float(core.real_from_model(mod, u)) for u in us]}

    def vio(P):
        out = P.value
        bad = []
        for k in range(n):
            lo = ws[k - 1] if k > 0 else z3.RealVal(0)
            cnt = z3.Sum([z3.If(z3.And(u >= lo, u < ws[k]), 1, 0) for u in us])
            e = core.R(out.a[k])
            bad.append(z3.Or(e.nan, e.inf != 0, e.v != z3.ToReal(cnt)))
        qs = [('each event in the bin containing its number', z3.Or(bad))]
        for (cond, what, npc) in P.notes.get('asserts', []):
            qs.append(('%s cannot happen' % what, None))
        return [q for q in qs if q[1] is not None]
    obs = C.path_obligations(paths, vio, cexf, replay, 'placement step', 120)
    # the lazily recorded index assertions
    for i, P in enumerate(paths):
        for (cond, what, npc) in P.notes.get('asserts', []):
            st, mod, t = C.solve([z3.Not(cond)], 60, P.pc[:npc])
            o = Obligation('%s cannot happen, path %d' % (what, i), st, t, cexf(mod, P) if st == 'sat' else None)
            obs.append(C._replayed(o, replay))
    obs = _agg(obs, paths, trunc)
    okp = [P for P in paths if P.kind == 'ok']
    if okp:
        def chk(mod):
            bad, d = replay(cexf(mod, okp[0]))
            return (not bad), d
        obs.append(C.reach_obligation(okp[0], chk))
    return {'obligations': [o.as_dict() for o in obs],
            'samples': [{'bins': n, 'draws': nd, 'weights': 'symbolic, invariant assumed', 'paths': len(paths)}]}


_CONC_RATES = [0.3, 1.7e-3, 4.25, 0.0, 12.5, 0.875, 3.1e-2, 2.0, 0.6]


def _job_wfp(job):
    """the sampling weights handed to _simulate_catalog by the real _poisson_likelihood_test, bit-exact:
    non-decreasing, flat exactly on zero-rate bins, last weight 1; and the event lands in range, in a positive-rate bin"""
    core.MODE['float'] = 'fp'
    core.OPT['lazy_bounds'] = True
    core.OPT['optimistic'] = True
    L = C.twin()
    pe = L.load('csep.core.poisson_evaluations')
    n, nsym = job['n'], job['nsym']
    TO = 250 if job['tier'] == 'quick' else 1500
    lam_t = []
    cons = []
    for i in range(n):
        if i < nsym:
            t = z3.FP('l%d' % i, F64)
            lam_t.append(t)
            cons.append(z3.Or(z3.fpIsZero(t) & z3.Not(z3.fpIsNegative(t)) if False else z3.fpEQ(t, fpconst(0.0)),
                              z3.And(z3.fpGEQ(t, fpconst(1e-12)), z3.fpLEQ(t, fpconst(1e3)))))
        else:
            lam_t.append(fpconst(_CONC_RATES[i % len(_CONC_RATES)]))
    cons.append(z3.Or([z3.fpGT(t, fpconst(0.0)) for t in lam_t]))
    u = z3.FP('u', F64)
    cons.append(z3.And(z3.fpGEQ(u, fpconst(0.0)), z3.fpLT(u, fpconst(1.0))))
    captured = {}
    orig = pe._simulate_catalog

    def rec(num_events, sampling_weights, sim_fore, random_numbers=None):
        core.CTX.notes['weights'] = sampling_weights
        core.CTX.notes['pc_at_call'] = len(core.CTX.pc)
        return orig(num_events, sampling_weights, sim_fore, random_numbers=random_numbers)
    pe._simulate_catalog = rec

    def run():
        for c in cons:
            core.assume(c)
        fd = symnp.asarray([SFP(t) for t in lam_t])
        od = symnp.asarray(np.array([1.0] + [0.0] * (n - 1)))
        rn = symnp.asarray([[SFP(u)]])
        try:
            pe._poisson_likelihood_test(fd, od, num_simulations=1, random_numbers=rn, seed=None, verbose=False)
        except AssertionError as e:
            core.CTX.notes['assertion'] = str(e)
        return True
    paths, trunc = core.explore(run, max_paths=40 if job.get('asserts') else 1)
    obs = []
    import time as _time
    deadline = _time.time() + (job['wall'] - 120)

    def val(mod, t):
        return core.fp_from_model(mod, t)

    def cexf(mod, P):
        return {'kind': 'pois_place', 'rates': [val(mod, t) for t in lam_t], 'u': [val(mod, u)]}
    seen_inv = False
    for i, P in enumerate(paths):
        W = P.notes.get('weights')
        if W is None:
            continue
        wt = [e.t if isinstance(e, SFP) else fpconst(float(e)) for e in W.a]
        npc = P.notes['pc_at_call']
        if not seen_inv:
            seen_inv = True
            pc0 = P.pc[:npc]
            # If every weight is one correctly rounded division  num_k / den  by a common divisor (what the code does),
            # monotonicity of the weights reduces to den > 0 and monotonicity of the numerators, because a correctly
            # rounded division by a positive number is a monotone function (IEEE-754 lemma, stated in the evidence;
            # z3 did not re-prove it within 600 s). Otherwise the weights themselves are compared.
            parts = [_div_parts(x) for x in wt]
            common = all(p is not None for p in parts) and all(p[1].eq(parts[0][1]) for p in parts)
            terms = [p[0] for p in parts] if common else wt
            if common:
                st, mod, t = C.solve([z3.Not(z3.fpGT(parts[0][1], fpconst(0.0)))], 90, pc0)
                o = Obligation('common divisor of the weights is positive', st, t, cexf(mod, P) if st == 'sat' else None)
                obs.append(C._replayed(o, replay, classify))
            for k in range(n):
                prev = terms[k - 1] if k > 0 else fpconst(0.0)
                for nm, q in (('%s %d >= %s %d' % ('numerator' if common else 'weight', k, 'numerator' if common else 'weight', k - 1),
                               z3.Not(z3.fpGEQ(terms[k], prev))),
                              ('zero-rate bin %d has an empty interval' % k,
                               z3.And(z3.fpEQ(lam_t[k], fpconst(0.0)), z3.Not(z3.fpEQ(terms[k], prev))))):
                    if z3.is_false(z3.simplify(q)):
                        continue
                    if _time.time() > deadline:
                        obs.append(Obligation(nm, 'unknown', note='job time budget exhausted'))
                        continue
                    st, mod, t = C.solve([q], 90 if job['tier'] == 'quick' else 600, pc0)
                    o = Obligation(nm, st, t, cexf(mod, P) if st == 'sat' else None)
                    obs.append(C._replayed(o, replay, classify))
            st, mod, t = C.solve([z3.fpLT(wt[-1], fpconst(1.0))], TO, pc0)
            cex = None
            if st == 'sat':
                cex = cexf(mod, P)
                wl = val(mod, wt[-1])
                cex['u'] = [max(wl, 0.0) if wl < 1.0 else math.nextafter(1.0, 0.0)]
            o = Obligation('last weight >= 1 (every u in [0,1) has a bin)', st, t, cex)
            obs.append(C._replayed(o, replay, classify))
        # lazily recorded assertions of the code: index in range
        for (cond, what, k) in (P.notes.get('asserts', []) if job.get('asserts') else []):
            if _time.time() > deadline:
                obs.append(Obligation('%s cannot happen, path %d' % (what, i), 'unknown', note='job time budget exhausted'))
                continue
            st, mod, t = C.solve([z3.Not(cond)], min(TO, 120), P.pc[:k])
            o = Obligation('%s cannot happen, path %d' % (what, i), st, t, cexf(mod, P) if st == 'sat' else None)
            obs.append(C._replayed(o, replay, classify))
        if 'assertion' in P.notes and job.get('asserts') and _time.time() <= deadline:
            st, mod, t = C.solve([], min(TO, 120), P.pc)
            o = Obligation('count assertion never fires, path %d' % i, st, t, cexf(mod, P) if st == 'sat' else None)
            obs.append(C._replayed(o, replay, classify))
    if not seen_inv:
        obs.append(Obligation('reachability witness', 'unsat', kind='reach'))
    else:
        P0 = [P for P in paths if P.notes.get('weights') is not None][0]

        def chk(mod):
            c = cexf(mod, P0)
            rates = np.array(c['rates'])
            wr = _real_weights(rates)
            ws = [val(mod, (e.t if isinstance(e, SFP) else fpconst(float(e)))) for e in P0.notes['weights'].a]
            return list(wr) == ws, 'rates %r: real weights %r, symbolic weights under the model %r' % (c['rates'], list(wr), ws)
        st, mod, t = C.solve([], 120, P0.pc[:P0.notes['pc_at_call']])
        o = Obligation('reachability witness', st, t, kind='reach')
        if st == 'sat':
            o.reproduced, o.detail = chk(mod)
        obs.append(o)
    return {'obligations': [o.as_dict() for o in obs],
            'samples': [{'bins': n, 'symbolic rates': nsym, 'concrete rates': [float(x) for x in _CONC_RATES[nsym:n]] if n > nsym else [],
                         'u': 'every double in [0,1)', 'paths': len(paths)}]}


def _div_parts(t):
    """(numerator, divisor) if t is fp.div(RNE, num, den)"""
    try:
        if z3.is_app(t) and t.decl().kind() == z3.Z3_OP_FPA_DIV and t.num_args() == 3:
            return t.arg(1), t.arg(2)
    except Exception:
        pass
    return None


def _real_weights(rates):
    """the sampling weights the real _poisson_likelihood_test hands to _simulate_catalog"""
    C.real_csep()
    from csep.core import poisson_evaluations as pe
    got = {}
    orig = pe._simulate_catalog

    def cap(num_events, sampling_weights, sim_fore, random_numbers=None):
        got['w'] = np.array(sampling_weights, dtype=float)
        return orig(num_events, sampling_weights, sim_fore, random_numbers=random_numbers)
    pe._simulate_catalog = cap
    try:
        r = np.array(rates, dtype=float)
        od = np.zeros(r.shape)
        od.flat[0] = 1
        with np.errstate(all='ignore'):
            try:
                pe._poisson_likelihood_test(r, od, num_simulations=1, random_numbers=np.array([[0.0]]), verbose=False)
            except Exception:
                pass
    finally:
        pe._simulate_catalog = orig
    return got.get('w')


def classify(cex):
    if cex.get('kind') == 'pois_place' and len(cex.get('rates', [])) >= 8:
        w = _real_weights(cex['rates'])
        if w is not None and w[-1] < 1.0:
            return 'pairwise-sum-below-one'
    return None


def _job_count(job):
    """number of simulated events and the quantile of the public Poisson tests"""
    from . import C05
    core.MODE['float'] = 'xr'
    core.OPT['lazy_bounds'] = True
    test = job['test']
    L = C.twin()
    pe = L.load('csep.core.poisson_evaluations')
    nc, nm, cmax = 2, 2, 1
    lam, lcons = F.sym_rates(nc, nm)
    w, wcons = F.sym_counts(nc, nm, cmax=cmax, total_max=1 if job['tier'] == 'quick' else 2)
    orig_sim = pe._simulate_catalog

    def recording_sim(num_events, *a, **k):
        r = orig_sim(num_events, *a, **k)
        core.CTX.notes.setdefault('sims', []).append((num_events, r.copy()))
        return r
    pe._simulate_catalog = recording_sim
    nsim = 2

    def run():
        for c in lcons + wcons + F.axioms():
            core.assume(c)
        core.CTX.notes.setdefault('random', {'seed_calls': [], 'draws': []})['poisson_max'] = 1
        fore = F.mk_forecast(L, lam)
        obs = F.ObsStub(L, w, fore.region, cmax)
        res = getattr(pe, C05.TESTS[test])(fore, obs, num_simulations=nsim, seed=None)
        return res.observed_statistic, res.test_distribution, res.quantile
    paths, trunc = core.explore(run, max_paths=5000)
    nobs = z3.Sum([x for row in w for x in row])

    def cexf(mod, P):
        return {'kind': 'count', 'rates': F.model_rates(mod, lam), 'counts': F.model_counts(mod, w)}

    def vio(P):
        o, dist, q = P.value
        sims = P.notes.get('sims', [])
        pois = [d for (tag, d) in P.notes.get('random', {}).get('draws', []) if tag == 'poisson']
        bad = [z3.BoolVal(len(sims) != nsim or len(dist) != nsim)]
        for j, (nev, arr) in enumerate(sims):
            tot = z3.Sum([core.R(e).v for e in arr.a.reshape(-1)])
            if test == 'L':
                want = z3.ToReal(pois[j].t) if j < len(pois) else None
                if want is None:
                    bad.append(z3.BoolVal(True))
                    continue
            else:
                want = z3.ToReal(nobs)
            bad.append(tot != want)
        # quantile = fraction of simulated statistics not exceeding the observed one, in [0,1]
        oo = core.R(o)
        le = []
        for d in dist:
            dd = core.R(d)
            lt = z3.Or(dd.inf < oo.inf, z3.And(dd.inf == 0, oo.inf == 0, dd.v <= oo.v), z3.And(dd.inf == oo.inf, dd.inf != 0))
            le.append(z3.And(z3.Not(dd.nan), z3.Not(oo.nan), lt))
        frac = z3.Sum([z3.If(c, 1, 0) for c in le])
        qq = core.R(q)
        bad.append(z3.Or(qq.nan, qq.inf != 0, qq.v * nsim != z3.ToReal(frac), qq.v < 0, qq.v > 1))
        return z3.Or(bad)
    obs = C.path_obligations(paths, vio, cexf, replay, 'simulated event counts conserved; quantile = #{sim <= obs}/n in [0,1]', 120,
                             candidate_only=True)
    obs = _agg(obs, paths, trunc)
    return {'obligations': [o.as_dict() for o in obs],
            'samples': [{'test': test, 'simulations': nsim, 'paths': len(paths)}]}


class _FcStub:
    """catalog forecast reduced to what the seed-handling prefix of the magnitude tests touches"""
    class _R:
        magnitudes = None
    region = _R()
    name = 'stub'


def _job_seed(job):
    """seed=s reaches numpy.random.seed(s) before any draw, for every s including 0"""
    core.MODE['float'] = 'xr'
    core.OPT['lazy_bounds'] = True
    fn = job['fn']
    L = C.twin()
    s = z3.Int('seed')
    lamv = [[0.5, 0.25], [1.0, 0.125]]
    wv = [[1, 0], [0, 1]]

    def run():
        core.assume(z3.And(s >= 0, s <= 2))
        core.CTX.notes.setdefault('random', {'seed_calls': [], 'draws': []}).update({'poisson_max': 1, 'max_draws': 6})
        seed = SInt(s, dom=(0, 2))
        for c in F.axioms():
            core.assume(c)
        if fn in ('resampled_magnitude_test', 'MLL_magnitude_test'):
            ce = L.load('csep.core.catalog_evaluations')
            try:
                getattr(ce, fn)(_FcStub(), None, seed=seed)
            except Exception:
                pass
        else:
            lam = [[z3.RealVal(str(x)) for x in row] for row in lamv]
            w = [[z3.IntVal(x) for x in row] for row in wv]
            fore = F.mk_forecast(L, lam)
            obs = F.ObsStub(L, w, fore.region, 1)
            modname = {'brier_score_test': 'csep.core.brier_evaluations'}.get(fn, 'csep.core.binomial_evaluations' if fn.startswith('binary') else 'csep.core.poisson_evaluations')
            try:
                getattr(L.load(modname), fn)(fore, obs, num_simulations=1, seed=seed)
            except core.Truncated:
                pass
        rec = core.CTX.notes['random']
        return list(rec['seed_calls']), len(rec['draws'])
    paths, trunc = core.explore(run, max_paths=400)

    def cexf(mod, P):
        return {'kind': 'seed', 'fn': fn, 'seed': core.int_from_model(mod, s)}

    def vio(P):
        calls, nd = P.value
        if len(calls) == 1 and calls[0] is not None:
            c = calls[0]
            ct = c.t if isinstance(c, SInt) else z3.IntVal(int(c))
            return ct != s
        return z3.BoolVal(True)
    obs = C.path_obligations(paths, vio, cexf, replay, 'numpy.random.seed(seed) is called exactly once with the given seed', 60)
    return {'obligations': [o.as_dict() for o in obs], 'samples': [{'function': fn, 'seed': 'symbolic 0..2', 'paths': len(paths)}]}


def _job_binplace(job):
    """binary / Brier simulation: every event lands in the bin whose cumulative-rate interval contains its number,
    never in a zero-rate bin; the simulated catalog has exactly the requested number of active cells"""
    core.MODE['float'] = 'xr'
    core.OPT['lazy_bounds'] = True
    which, n = job['which'], job['n']
    L = C.twin()
    mod_ = L.load('csep.core.binomial_evaluations' if which == 'binary' else 'csep.core.brier_evaluations')
    lam = [z3.Real('l%d' % i) for i in range(n)]
    cells = 1
    orig_sim = mod_._simulate_catalog

    def rec(sim_cells, sampling_weights, *a, **k):
        core.CTX.notes['weights'] = sampling_weights
        r = orig_sim(sim_cells, sampling_weights, *a, **k)
        core.CTX.notes['sim'] = r.copy()
        return r
    mod_._simulate_catalog = rec

    def run():
        for l in lam:
            core.assume(l >= 0)
        core.assume(z3.Sum(lam) > 0)
        core.assume(z3.Or([l == 0 for l in lam]))          # the interesting class: at least one zero-rate bin
        core.CTX.notes.setdefault('random', {'seed_calls': [], 'draws': []})['max_draws'] = 2
        from .C16 import _exp_axioms
        for c in _exp_axioms(lam):
            core.assume(c)
        fd = symnp.asarray([XR(l) for l in lam])
        od = symnp.asarray(np.array([1.0] + [0.0] * (n - 1)))
        if which == 'binary':
            mod_._binary_likelihood_test(fd, od, num_simulations=1, seed=None, verbose=False)
        else:
            mod_._brier_score_test(fd, od, num_simulations=1, seed=None, verbose=False)
        return True
    paths, trunc = core.explore(run, max_paths=3000)

    def cexf(mod, P):
        draws = [d for (tag, d) in P.notes.get('random', {}).get('draws', []) if tag in ('uniform', 'rand')]
        return {'kind': 'binplace', 'which': which, 'cells': cells, 'rates': [float(core.real_from_model(mod, l)) for l in lam],
                'u': [float(core.real_from_model(mod, d.v)) for d in draws]}

    def vio(P):
        sim = P.notes.get('sim')
        if sim is None:
            return z3.BoolVal(True)
        draws = [d for (tag, d) in P.notes.get('random', {}).get('draws', []) if tag in ('uniform', 'rand')]
        # exact cumulative intervals of the positive rates
        tot = z3.Sum(lam)
        bad = []
        acc = z3.RealVal(0)
        act = []
        for k in range(n):
            lo = acc
            acc = acc + lam[k]
            hit = z3.Or([z3.And(d.v * tot >= lo, d.v * tot < acc) for d in draws]) if draws else z3.BoolVal(False)
            e = core.R(sim.a.reshape(-1)[k])
            bad.append(z3.And(e.v > 0, lam[k] == 0))
            bad.append((e.v > 0) != hit)
        return [('no event in a zero-rate bin; active cells = cells hit by the draws', z3.Or(bad))]
    obs = C.path_obligations(paths, vio, cexf, replay, '%s placement' % which, 120, candidate_only=True)
    for i, P in enumerate(paths):
        for (cond, what, npc) in P.notes.get('asserts', []):
            st, mod, t = C.solve([z3.Not(cond)], 60, P.pc[:npc])
            o = Obligation('%s cannot happen, path %d' % (what, i), st, t, cexf(mod, P) if st == 'sat' else None, candidate_only=True)
            obs.append(C._replayed(o, replay))
    obs = _agg(obs, paths, trunc)
    return {'obligations': [o.as_dict() for o in obs],
            'samples': [{'which': which, 'bins': n, 'rates': 'symbolic >= 0 with a zero-rate bin', 'paths': len(paths)}]}


def _job_inject(job):
    """two simulations with injected random numbers: each simulation starts from an empty catalog"""
    core.MODE['float'] = 'xr'
    core.OPT['lazy_bounds'] = True
    which = job['which']
    L = C.twin()
    modname = {'binary': 'csep.core.binomial_evaluations', 'brier': 'csep.core.brier_evaluations', 'poisson': 'csep.core.poisson_evaluations'}[which]
    mod_ = L.load(modname)
    n = 3
    lam = [z3.Real('l%d' % i) for i in range(n)]
    us = [[z3.Real('u%d_%d' % (j, i)) for i in range(1)] for j in range(2)]

    def run():
        for l in lam:
            core.assume(l > 0)
        for row in us:
            for u in row:
                core.assume(z3.And(u >= 0, u < 1))
        from .C16 import _exp_axioms
        for c in _exp_axioms(lam) + F.axioms():
            core.assume(c)
        fd = symnp.asarray([XR(l) for l in lam])
        od = symnp.asarray(np.array([0.0, 1.0, 0.0]))
        rn = symnp.asarray([[XR(u) for u in row] for row in us])
        fn = {'binary': '_binary_likelihood_test', 'brier': '_brier_score_test', 'poisson': '_poisson_likelihood_test'}[which]
        return getattr(mod_, fn)(fd, od, num_simulations=2, random_numbers=rn, seed=None, verbose=False)
    paths, trunc = core.explore(run, max_paths=2000)

    def cexf(mod, P):
        return {'kind': 'inject', 'which': which, 'rates': [float(core.real_from_model(mod, l)) for l in lam], 'counts': [0.0, 1.0, 0.0],
                'rn': [[float(core.real_from_model(mod, u)) for u in row] for row in us]}
    obs = C.path_obligations(paths, lambda P: None, cexf, replay, 'injected random numbers', 60)
    n_ok = sum(1 for P in paths if P.kind == 'ok')
    obs.append(Obligation('both simulations complete on all %d paths' % len(paths), 'unsat' if n_ok == len(paths) and not trunc else
                          ('unknown' if trunc else 'sat'), note='%d ok paths' % n_ok))
    obs = [o for o in obs if not (o.status == 'sat' and o.cex is None)]
    return {'obligations': [o.as_dict() for o in obs], 'samples': [{'which': which, 'simulations': 2, 'paths': len(paths)}]}


QUANT = {'poisson': ('csep.core.poisson_evaluations', '_poisson_likelihood_test', 'poisson_joint_log_likelihood_ndarray'),
         'binary': ('csep.core.binomial_evaluations', '_binary_likelihood_test', 'binary_joint_log_likelihood_ndarray'),
         'brier': ('csep.core.brier_evaluations', '_brier_score_test', '_brier_score_ndarray')}


def _job_quant(job):
    """the quantile reported by the simulation kernels is the fraction of simulated statistics not exceeding the observed one, for
    ARBITRARY statistic values: the scoring function is replaced by an opaque function returning free reals (assume-guarantee:
    the scores themselves are C05 / C16), so ties and near-ties between simulated and observed statistics are all covered"""
    core.MODE['float'] = 'xr'
    core.OPT['lazy_bounds'] = True
    which = job['which']
    modname, fn, score = QUANT[which]
    L = C.twin()
    mod_ = L.load(modname)
    nsim = 3

    def opaque(*a, **k):
        v = z3.Real(core.fresh_name('score'))
        core.CTX.notes.setdefault('scores', []).append(v)
        return XR(v)
    setattr(mod_, score, opaque)
    rates = np.array([[0.5], [1.5]])
    counts = np.array([[1.0], [0.0]])

    def run():
        core.CTX.notes.setdefault('random', {'seed_calls': [], 'draws': []}).update({'poisson_max': 1, 'max_draws': 12})
        fd = symnp.asarray(rates)
        od = symnp.asarray(counts)
        if which == 'poisson':
            return mod_._poisson_likelihood_test(fd, od, num_simulations=nsim, seed=None, verbose=False)
        return getattr(mod_, fn)(fd, od, num_simulations=nsim, seed=None, verbose=False)
    paths, trunc = core.explore(run, max_paths=3000)

    def cexf(mod, P):
        return {'kind': 'quant', 'which': which, 'scores': [float(core.real_from_model(mod, v)) for v in P.notes.get('scores', [])], 'nsim': nsim}

    def vio(P):
        qs, obs_v, sims = P.value
        o = core.R(obs_v).v
        sl = [core.R(x).v for x in (sims.a.reshape(-1) if isinstance(sims, symnp.SArr) else sims)]
        cnt = z3.Sum([z3.If(x <= o, 1, 0) for x in sl])
        q = core.R(qs)
        return z3.Or(z3.BoolVal(len(sl) != nsim), z3.Not(q.fin()), q.v * nsim != z3.ToReal(cnt))
    obs = C.path_obligations(paths, vio, cexf, replay, '%s: quantile = #{simulated <= observed} / n for arbitrary statistic values' % which, 60)
    obs = _agg(obs, paths, trunc)
    okp = [P for P in paths if P.kind == 'ok']
    if okp:
        def chk(mod):
            bad, d = replay(cexf(mod, okp[0]))
            return (not bad), d
        obs.append(C.reach_obligation(okp[0], chk))
    return {'obligations': [o.as_dict() for o in obs], 'samples': [{'kernel': fn, 'simulations': nsim, 'statistics': 'free reals', 'paths': len(paths)}]}


def _replay_quant(cex):
    from unittest import mock
    C.real_csep()
    import importlib
    modname, fn, score = QUANT[cex['which']]
    m = importlib.import_module(modname)
    vals = list(cex['scores'])
    it = iter(vals)

    def fake(*a, **k):
        try:
            return np.float64(next(it))
        except StopIteration:
            return np.float64(0.0)
    rates = np.array([[0.5], [1.5]])
    counts = np.array([[1.0], [0.0]])
    with mock.patch.object(m, score, fake), np.errstate(all='ignore'):
        try:
            qs, o, sims = getattr(m, fn)(rates, counts, num_simulations=cex['nsim'], seed=1, verbose=False)
        except Exception as e:
            return True, '%s raised %r' % (fn, e)
    sims = [float(x) for x in np.asarray(sims, dtype=float).ravel()]
    want = sum(1 for x in sims if x <= float(o)) / cex['nsim']
    bad = abs(float(qs) - want) > 1e-12
    return bad, '%s: quantile %r for simulated statistics %r and observed %r; #{sim <= obs}/n = %r' % (fn, float(qs), sims, float(o), want)
