"""C16 -- binary likelihood and Brier score equal their definitions (DESIGN 4/C16)."""
import math

import numpy as np
import z3

from symx import core, symnp
from symx.core import XR, SInt
from symx.harness import Obligation
from . import common as C
from . import evalfix as F

ID = 'C16'
KNOWN_KEYS = {}
META = {
    'functions': ['csep/core/binomial_evaluations.py binary_joint_log_likelihood_ndarray',
                  'csep/core/binomial_evaluations.py _binary_likelihood_test', 'csep/core/binomial_evaluations.py _simulate_catalog',
                  'csep/core/binomial_evaluations.py binary_spatial_test', 'csep/core/binomial_evaluations.py binary_conditional_likelihood_test',
                  'csep/core/brier_evaluations.py _brier_score_ndarray', 'csep/core/brier_evaluations.py _brier_score_test',
                  'csep/core/brier_evaluations.py _simulate_catalog', 'csep/core/brier_evaluations.py brier_score_test'],
    'theory': 'extended reals + uninterpreted exp, log (IEEE conventions for log 0), Poisson cdf with the contract '
              'cdf(0, mu) = exp(-mu); numpy.ma data semantics modelled (the code reads .data)',
    'bounds': {'quick': 'rates >= 0 (zeros allowed): 1-D 3 bins and 2-D 2x2; counts 0..2 per bin; public tests with 1 simulation, '
                        'at most 2 active cells, at most 3 uniform draws',
               'thorough': '1-D 4 bins, 2-D 2x3'},
    'outside': ['float rounding (1 - exp(-rate) underflow for rates below 1e-16)', 'negative rates', 'more draws than the bound'],
    'stubs': ['numpy.exp/log: uninterpreted; scipy.stats.poisson.cdf(0, mu) = exp(-mu) (contract)',
              'numpy.random.uniform: arbitrary value in [0,1)'],
    'assumptions': ['rates >= 0, at least one positive'],
}


def _bll_spec(lams, actives):
    """(value term, minus_inf Bool): sum_active log(1 - exp(-l)) + sum_inactive (-l)"""
    exp, log = core.uf('exp'), core.uf('log')
    val = z3.Sum([z3.If(a, log(1 - exp(-l)), -l) for l, a in zip(lams, actives)])
    minf = z3.Or([z3.And(a, l == 0) for l, a in zip(lams, actives)])
    return val, minf


def _brier_spec(lams, actives):
    exp = core.uf('exp')
    n = len(lams)
    s = z3.Sum([(1 - exp(-l) - z3.If(a, z3.RealVal(1), z3.RealVal(0))) * (1 - exp(-l) - z3.If(a, z3.RealVal(1), z3.RealVal(0)))
                for l, a in zip(lams, actives)])
    return -2 * s / n


def _exp_axioms(lams):
    exp = core.uf('exp')
    fp = core.uf('Fpois', 2)
    ax = [exp(z3.RealVal(0)) == 1]
    for l in lams:
        ax.append(fp(z3.RealVal(0), l) == exp(-l))
        ax.append(z3.And(exp(-l) > 0, exp(-l) <= 1))
        ax.append((exp(-l) == 1) == (l == 0))
    return ax


def _ref_bll(rates, counts):
    tot = 0.0
    for l, c in zip(rates, counts):
        if c > 0:
            if l == 0:
                return -math.inf
            tot += math.log(-math.expm1(-l))
        else:
            tot += -l
    return tot


def _ref_brier(rates, counts):
    n = len(rates)
    return -2.0 * sum((-math.expm1(-l) - (1.0 if c > 0 else 0.0)) ** 2 for l, c in zip(rates, counts)) / n


def _close(a, b):
    if math.isinf(a) or math.isinf(b) or math.isnan(a) or math.isnan(b):
        return a == b
    return abs(a - b) <= 1e-9 * max(1.0, abs(b))


def replay(cex):
    C.real_csep()
    from csep.core import binomial_evaluations as be, brier_evaluations as br
    rates = np.array(cex['rates'], dtype=float)
    counts = np.array(cex['counts'], dtype=float)
    msgs = []
    k = cex['kind']
    with np.errstate(all='ignore'):
        if k in ('bll', 'both'):
            got = float(be.binary_joint_log_likelihood_ndarray(rates, counts))
            want = _ref_bll(rates.ravel(), counts.ravel())
            if not _close(got, want):
                msgs.append('binary_joint_log_likelihood_ndarray(%r, %r) = %r, definition gives %r' % (rates.tolist(), counts.tolist(), got, want))
        if k in ('brier', 'both'):
            got = float(br._brier_score_ndarray(rates, counts))
            want = _ref_brier(rates.ravel(), counts.ravel())
            if not _close(got, want):
                msgs.append('_brier_score_ndarray(%r, %r) = %r, definition gives %r' % (rates.tolist(), counts.tolist(), got, want))
        if k == 'public':
            from . import C05
            fore, cat = C05._real_setup(cex['rates'], cex['counts'].tolist() if hasattr(cex['counts'], 'tolist') else cex['counts'])
            fn = {'binary_spatial_test': be.binary_spatial_test, 'binary_conditional_likelihood_test': be.binary_conditional_likelihood_test,
                  'brier_score_test': br.brier_score_test}[cex['fn']]
            try:
                if cex.get('rn'):
                    res = fn(fore, cat, num_simulations=1, random_numbers=np.array([cex['rn']]))
                else:
                    res = fn(fore, cat, num_simulations=1, seed=3)
            except Exception as e:
                return True, '%s raised %r (rates %r counts %r)' % (cex['fn'], e, cex['rates'], cex['counts'])
            R, W = np.array(cex['rates'], dtype=float), np.array(cex['counts'])
            if cex.get('rn'):
                # independent reference for the simulated entry: inverse-CDF placement of the supplied numbers, activity only
                rr = R.ravel()
                wts = np.cumsum(rr) / np.sum(rr)
                cells = np.searchsorted(wts, np.array(cex['rn']), side='right')
                sim = np.zeros(len(rr))
                for c_ in cells:
                    sim[min(int(c_), len(rr) - 1)] += 1
                want_sim = _ref_bll(rr, sim)
                got_sim = float(np.asarray(res.test_distribution, dtype=float)[0])
                if not _close(got_sim, want_sim):
                    msgs.append('%s simulated entry %r for draws %r, definition on the simulated catalog gives %r (rates %r)'
                                % (cex['fn'], got_sim, cex['rn'], want_sim, cex['rates']))
            if cex['fn'] == 'binary_spatial_test':
                r, w = R.sum(axis=1), W.sum(axis=1)
            else:
                r, w = R.ravel(), W.ravel()
            want = _ref_brier(r, w) if cex['fn'] == 'brier_score_test' else _ref_bll(r, w)
            if cex['fn'] == 'brier_score_test' and R.ndim == 2:
                pass
            got = float(res.observed_statistic)
            if not _close(got, want):
                msgs.append('%s observed_statistic %r, definition gives %r (rates %r counts %r)' % (cex['fn'], got, want, cex['rates'], cex['counts']))
    return bool(msgs), '; '.join(msgs) or 'real values equal the definitions'


def jobs(tier, seed):
    out = []
    shapes = [(3,), (2, 2)] if tier == 'quick' else [(3,), (4,), (2, 2), (2, 3)]
    for sh in shapes:
        out.append({'name': 'ndarray functions shape=%s' % (sh,), 'kind': 'nd', 'shape': sh, 'tier': tier, 'cost': 3})
        out.append({'name': 'activity-only dependence shape=%s' % (sh,), 'kind': 'act', 'shape': sh, 'tier': tier, 'cost': 3})
    for fn in ('binary_spatial_test', 'binary_conditional_likelihood_test', 'brier_score_test'):
        out.append({'name': 'public %s 2x2' % fn, 'kind': 'public', 'fn': fn, 'tier': tier, 'cost': 20})
    out.append({'name': 'public binary_conditional_likelihood_test 2x2, injected random numbers', 'kind': 'public',
                'fn': 'binary_conditional_likelihood_test', 'inject': True, 'tier': tier, 'cost': 30})
    for j in out:
        j['wall'] = 900 if tier == 'quick' else 3400
    return out


def _sym_inputs(shape, cmax=2):
    n = int(np.prod(shape))
    lam = [z3.Real('l%d' % i) for i in range(n)]
    w = [z3.Int('w%d' % i) for i in range(n)]
    cons = [l >= 0 for l in lam] + [z3.Sum(lam) > 0] + [z3.And(x >= 0, x <= cmax) for x in w]
    la = np.empty(n, dtype=object)
    wa = np.empty(n, dtype=object)
    for i in range(n):
        la[i] = XR(lam[i])
        wa[i] = core.R(SInt(w[i], dom=(0, cmax)))
    return lam, w, cons, symnp.SArr(la.reshape(shape), core.DT64), symnp.SArr(wa.reshape(shape), core.DT64)


def run_job(job):
    snap = C.stats_snapshot()
    core.MODE['float'] = 'xr'
    core.OPT['lazy_bounds'] = True
    res = globals()['_job_' + job['kind']](job)
    res.update(C.stats_delta(snap))
    return res


def _job_nd(job):
    L = C.twin()
    be = L.load('csep.core.binomial_evaluations')
    br = L.load('csep.core.brier_evaluations')
    shape = tuple(job['shape'])
    lam, w, cons, LA, WA = _sym_inputs(shape)
    TO = 120

    def run():
        for c in cons + _exp_axioms(lam):
            core.assume(c)
        return be.binary_joint_log_likelihood_ndarray(LA, WA), br._brier_score_ndarray(LA, WA)
    paths, trunc = core.explore(run, max_paths=3000)
    act = [x > 0 for x in w]
    bv, binf = _bll_spec(lam, act)
    brv = _brier_spec(lam, act)

    def cexf(mod, P):
        return {'kind': 'both', 'rates': np.array([float(core.real_from_model(mod, l)) for l in lam]).reshape(shape).tolist(),
                'counts': np.array([core.int_from_model(mod, x) for x in w]).reshape(shape).tolist()}

    def vio(P):
        bll, bs = P.value
        b = core.R(bll)
        good1 = z3.And(z3.Not(b.nan), z3.If(binf, b.inf == -1, z3.And(b.inf == 0, b.v == bv)))
        s = core.R(bs)
        good2 = z3.And(z3.Not(s.nan), s.inf == 0, s.v == brv)
        return [('binary log-likelihood == definition', z3.Not(good1)), ('Brier score == definition', z3.Not(good2))]
    obs = C.path_obligations(paths, vio, cexf, replay, 'ndarray', TO, candidate_only=True)
    obs = _aggregate(obs, paths, trunc)
    okp = [P for P in paths if P.kind == 'ok']
    if okp:
        def chk(mod):
            bad, d = replay(cexf(mod, okp[0]))
            return (not bad), d
        obs.append(C.reach_obligation(okp[0], chk))
    return {'obligations': [o.as_dict() for o in obs],
            'samples': [{'shape': list(shape), 'rates': 'symbolic >= 0', 'counts': 'symbolic 0..2', 'paths': len(paths)}]}


def _aggregate(obs, paths, trunc):
    agg = {}
    out = []
    for o in obs:
        key = o.name.split(', path')[0]
        a = agg.setdefault(key, {'n': 0, 'unsat': 0, 'sat': [], 'unknown': 0, 't': 0.0})
        a['n'] += 1
        a['t'] += o.time_s
        if o.status == 'unsat':
            a['unsat'] += 1
        elif o.status == 'sat':
            a['sat'].append(o)
        else:
            a['unknown'] += 1
    for key, a in agg.items():
        out += a['sat'][:3]
        if a['unsat'] == a['n'] or a['unknown']:
            out.append(Obligation('%s on all %d paths' % (key, a['n']), 'unsat' if a['unsat'] == a['n'] else 'unknown', a['t'],
                                  note='%d paths%s' % (len(paths), ', truncated' if trunc else '')))
    if trunc:
        out.append(Obligation('path exploration complete', 'unknown', note='truncated at %d paths' % len(paths)))
    return out


def _job_act(job):
    """two count arrays with the same activity pattern give the same values (one execution per array, compared)"""
    L = C.twin()
    be = L.load('csep.core.binomial_evaluations')
    br = L.load('csep.core.brier_evaluations')
    shape = tuple(job['shape'])
    lam, w, cons, LA, WA = _sym_inputs(shape)
    n = len(w)
    w2 = [z3.Int('v%d' % i) for i in range(n)]
    wa2 = np.empty(n, dtype=object)
    for i in range(n):
        wa2[i] = core.R(SInt(w2[i], dom=(0, 3)))
    WA2 = symnp.SArr(wa2.reshape(shape), core.DT64)

    def run():
        for c in cons + _exp_axioms(lam):
            core.assume(c)
        for a, b in zip(w, w2):
            core.assume(z3.And(b >= 0, b <= 3, (a > 0) == (b > 0)))
        return (be.binary_joint_log_likelihood_ndarray(LA, WA), be.binary_joint_log_likelihood_ndarray(LA, WA2),
                br._brier_score_ndarray(LA, WA), br._brier_score_ndarray(LA, WA2))
    paths, trunc = core.explore(run, max_paths=3000)

    def same(a, b):
        a, b = core.R(a), core.R(b)
        return z3.And(a.nan == b.nan, a.inf == b.inf, z3.Or(a.nan, a.inf != 0, a.v == b.v))

    def cexf(mod, P):
        return {'kind': 'both', 'rates': np.array([float(core.real_from_model(mod, l)) for l in lam]).reshape(shape).tolist(),
                'counts': np.array([core.int_from_model(mod, x) for x in w]).reshape(shape).tolist()}

    def vio(P):
        a1, a2, b1, b2 = P.value
        return z3.Or(z3.Not(same(a1, a2)), z3.Not(same(b1, b2)))
    obs = C.path_obligations(paths, vio, cexf, replay, 'same activity pattern => same scores', 120, candidate_only=True)
    obs = _aggregate(obs, paths, trunc)
    return {'obligations': [o.as_dict() for o in obs], 'samples': [{'shape': list(shape), 'two count arrays': 'same activity pattern'}]}


def _job_public(job):
    L = C.twin()
    be = L.load('csep.core.binomial_evaluations')
    br = L.load('csep.core.brier_evaluations')
    fn = job['fn']
    nc, nm = 2, 2
    lam, lcons = F.sym_rates(nc, nm)
    w, wcons = F.sym_counts(nc, nm, cmax=2, total_max=2 if fn != 'binary_spatial_test' else 3)
    mod_ = br if fn == 'brier_score_test' else be
    orig_sim = mod_._simulate_catalog

    def recording_sim(*a, **k):
        r = orig_sim(*a, **k)
        core.CTX.notes.setdefault('sims', []).append(r.copy())
        return r
    mod_._simulate_catalog = recording_sim
    flat_l = [x for row in lam for x in row]
    us = [z3.Real('u0'), z3.Real('u1')]

    def run():
        for c in lcons + wcons + _exp_axioms(flat_l + [z3.Sum(r) for r in lam]):
            core.assume(c)
        core.CTX.notes.setdefault('random', {'seed_calls': [], 'draws': []})['max_draws'] = 3
        fore = F.mk_forecast(L, lam)
        obs = F.ObsStub(L, w, fore.region, 2)
        if job.get('inject'):
            # the caller supplies the uniform numbers: two draws (they may land in the same cell) for two active observed cells
            core.assume(z3.Sum([z3.If(x > 0, 1, 0) for row in w for x in row]) == 2)
            for u in us:
                core.assume(z3.And(u >= 0, u < 1))
            rn = symnp.asarray([[XR(u) for u in us]])
            res = getattr(mod_, fn)(fore, obs, num_simulations=1, seed=None, random_numbers=rn)
        else:
            res = getattr(mod_, fn)(fore, obs, num_simulations=1, seed=None)
        return res.observed_statistic, res.test_distribution, res.quantile
    paths, trunc = core.explore(run, max_paths=6000)
    if fn == 'binary_spatial_test':
        rates_v = [z3.Sum(r) for r in lam]
        counts_t = [z3.Sum(r) for r in w]
    else:
        rates_v = flat_l
        counts_t = [x for row in w for x in row]
    act = [c > 0 for c in counts_t]
    if fn == 'brier_score_test':
        spec_v, spec_inf = _brier_spec(rates_v, act), z3.BoolVal(False)
    else:
        spec_v, spec_inf = _bll_spec(rates_v, act)

    def cexf(mod, P):
        c = {'kind': 'public', 'fn': fn, 'rates': F.model_rates(mod, lam), 'counts': F.model_counts(mod, w)}
        if job.get('inject'):
            c['rn'] = [float(core.real_from_model(mod, u)) for u in us]
        return c

    def vio(P):
        o, dist, q = P.value
        o = core.R(o)
        good = z3.And(z3.Not(o.nan), z3.If(spec_inf, o.inf == -1, z3.And(o.inf == 0, o.v == spec_v)))
        out = [('%s observed statistic == definition' % fn, z3.Not(good))]
        simc = P.notes.get('sims', [])
        if len(simc) == 1 and len(dist) == 1:
            flat = [core.R(e) for e in simc[0].a.reshape(-1)]
            sact = [f.v > 0 for f in flat]
            if fn == 'brier_score_test':
                sv, sinf = _brier_spec(rates_v, sact), z3.BoolVal(False)
            else:
                sv, sinf = _bll_spec(rates_v, sact)
            d = core.R(dist[0])
            good2 = z3.And(z3.Not(d.nan), z3.If(sinf, d.inf == -1, z3.And(d.inf == 0, d.v == sv)))
            out.append(('%s simulated entry == definition on the simulated catalog' % fn, z3.Not(good2)))
        return out
    obs = C.path_obligations(paths, vio, cexf, replay, fn, 120, candidate_only=True)
    obs = _aggregate(obs, paths, trunc)
    okp = [P for P in paths if P.kind == 'ok']
    if okp:
        def chk(mod):
            bad, d = replay(cexf(mod, okp[0]))
            return (not bad), d
        obs.append(C.reach_obligation(okp[0], chk))
    return {'obligations': [o.as_dict() for o in obs],
            'samples': [{'function': fn, 'shape': [nc, nm], 'paths': len(paths), 'truncated_paths': core.STATS.get('truncated_paths', 0)}]}
