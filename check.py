"""./check <id> [--tier quick|thorough] [--replay PATH]"""
import argparse
import importlib
import json
import os
import sys

sys.setrecursionlimit(20000)


def main():
    ap = argparse.ArgumentParser()
    ap.add_argument('prop')
    ap.add_argument('--tier', default=os.environ.get('VERIF_TIER', 'quick'), choices=['quick', 'thorough'])
    ap.add_argument('--replay')
    a = ap.parse_args()
    seed = int(os.environ.get('VERIF_SEED', '0') or 0)
    repo = os.environ.get('VERIF_REPO', '/repo')
    if repo not in sys.path:
        sys.path.insert(0, repo)        # the real csep used for replays comes from the same tree
    mod = importlib.import_module('harness.' + a.prop)
    if a.replay:
        blob = json.load(open(a.replay))
        ok, detail = mod.replay(blob['cex'])
        print(('VIOLATION property=%s replay=%s\n  ' % (a.prop, a.replay) if ok else 'not reproduced: ') + str(detail))
        return 1 if ok else 0
    from symx import harness
    return harness.main(mod, a.tier, seed)


if __name__ == '__main__':
    sys.exit(main())
